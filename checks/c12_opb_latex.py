"""C12  OPB and LaTeX renderings denote the formula held in memory.

Every formula of a small scope (all single PB constraints over 3 variables,
all sequences of <= 3 constraints over a constraint alphabet, all CNFs of
engine.scope.cnfs, a family catalogue in both formula classes, formulas with
named variables, formulas with 34..141 rows, header variants) is rendered by
the real writers (to_opb, to_latex, to_file with every combination of
export_header / export_varnames / extra_text) and the text is read back by
the strict independent readers of ref/c12_readers.py.  The reader's result
must be, row by row, the formula held in memory (read through F[i],
number_of_variables(), len()).  A second group of shards enumerates the format
selection (explicit request x kind of destination) and the command line tools.
"""
import io
import os
import itertools
import contextlib
import tempfile
import shutil
import random

from engine import scope
from engine.common import setup_paths
from ref import c12_readers as rd

PROPERTY = 'C12'
SECOND_PASS = ('run_single', 'run_sequences', 'run_cnfs', 'run_families', 'run_catalogue')
LEVEL = 'exploration'
EXHAUSTIVE = True
ENGINE = 'scope+strict-readers'
TECHNIQUE = ('bounded exhaustive enumeration of formulas x rendering options; '
             'every text read back by strict independent OPB / LaTeX / DIMACS '
             'readers and compared row by row with the in-memory formula')
LEVEL_TEXT = 'exploration, exhaustive inside the stated scope'
LEVEL_NOTE = ('serializers are per-row functions of the formula plus a little '
              'positional state (first row, page split every 35 rows); the '
              'scope covers every row shape over 3 variables and every '
              'position up to 141 rows')
RULE = ('a case is one (formula, rendering) pair: formulas are enumerated once '
        'each (all 15310 single PB constraints over <=3 variables with '
        'coefficients 1..3, both relations, degree 0..4; all sequences of <=3 '
        'constraints over a constraint alphabet x declared variables; all CNFs '
        'of scope.cnfs in both classes; catalogues of families, named '
        'variables, long formulas, headers) and crossed with the renderings '
        '{to_opb, to_file opb x header x varnames, to_latex, to_file latex x '
        'header x extra_text}; format selection crosses request x destination '
        'kind x class; a case is non-trivial when the formula has at least one '
        'row with at least one literal')
ASSUMPTIONS = [
    'bounded scope: PB constraints over <=3 variables, coefficients {1,2,3} '
    '(plus catalogue cases with 0, 5, 12 and normalised negative ones), <=3 '
    'constraints per formula in the exhaustive part, CNFs of scope.cnfs(2,3), '
    'scope.cnfs(3,2) (thorough: (3,3)), long formulas up to 141 rows',
    'the in-memory formula is what F[i], len(F), number_of_variables() return',
    'variable names: independent reference for new_variable/new_block recipes; '
    'all_variable_labels() for family instances and the other variable groups',
    'OPB reader accepts constraint lines without the final ";" and with an '
    'empty sum, as the documented output of the repository has them; LaTeX '
    'names that start with a brace group are compared modulo braces',
    'ref/c12_readers.py is the trusted reading of the formats',
]
VACUITY = {
    'formulas': 1000,
    'opb_texts_read': 2000,
    'latex_texts_read': 2000,
    'opb_equalities_read': 100,
    'opb_negative_literals_read': 100,
    'opb_coefficients_gt1_read': 100,
    'opb_empty_constraints_read': 10,
    'latex_negative_literals_read': 100,
    'latex_coefficients_gt1_read': 100,
    'latex_empty_clause_rows': 10,
    'latex_top_blocks': 4,
    'latex_multiblock_documents': 8,
    'latex_named_literals_read': 50,
    'fmt:ValueError': 4,
    'fmt:latex': 4,
    'fmt:opb': 4,
    'fmt:dimacs': 4,
    'cli:ok': 4,
}

ANY = '<any>'


def preload():
    setup_paths()
    import cnfgen  # noqa
    import cnfgen.clitools.cnfgen  # noqa
    import cnfgen.clitools.pbgen  # noqa


# ======================================================================
# building formulas from JSON recipes
# ======================================================================
def _classes():
    from cnfgen.formula.cnf import CNF
    from cnfgen.formula.opb import OPB
    from cnfgen.formula.cnfio import CNFio
    from cnfgen.formula.opbio import OPBio
    return {'CNF': CNF, 'OPB': OPB, 'CNFio': CNFio, 'OPBio': OPBio}


def _block_names(ranges, label):
    return [label.format(*idx) for idx in
            itertools.product(*[range(1, r + 1) for r in ranges])]


def build(recipe):
    """Returns (F, refnames).  refnames[i-1] is the independently known name
    of variable i (None = unnamed, ANY = no name was given), or refnames is
    None when the names are only known through all_variable_labels()."""
    cls = _classes()[recipe['cls']]
    if 'fam' in recipe:
        return fam_build(recipe['fam'], cls), None
    if 'desc' in recipe:
        F = cls(description=recipe['desc'])
    else:
        F = cls()
    names = []
    known = True

    def grow(n):
        while len(names) < n:
            names.append(None)

    for st in recipe['steps']:
        op = st[0]
        if op == 'nv':
            F.update_variable_number(st[1])
            grow(st[1])
        elif op == 'cl':
            F.add_clause(list(st[1]))
            grow(max([abs(x) for x in st[1]] or [0]))
        elif op == 'con':
            F.add_constraint([tuple(t) for t in st[1]] + [st[2], st[3]])
            grow(max([abs(t[1]) for t in st[1]] or [0]))
        elif op == 'con-lists':
            # the (coefficient, literal) pairs given as two-element lists
            F.add_constraint([list(t) for t in st[1]] + [st[2], st[3]])
            grow(max([abs(t[1]) for t in st[1]] or [0]))
        elif op == 'con-from':
            F.add_constraints_from([[list(t) for t in c[0]] + [c[1], c[2]] for c in st[1]])
            grow(max([abs(t[1]) for c in st[1] for t in c[0]] or [0]))
        elif op == 'var':
            if st[1] is None:
                F.new_variable()
                names.append(ANY)
            else:
                F.new_variable(label=st[1])
                names.append(st[1])
        elif op == 'block':
            F.new_block(*st[1], label=st[2])
            names.extend(_block_names(st[1], st[2]))
        elif op == 'group':
            # other variable groups: names only through all_variable_labels
            kind = st[1]
            a = st[2]
            if kind == 'comb':
                F.new_combinations(a[0], a[1])
            elif kind == 'perm':
                F.new_permutations(a[0], a[1])
            elif kind == 'words':
                F.new_words(a[0], a[1])
            elif kind == 'mapping':
                F.new_mapping(a[0], a[1])
            elif kind == 'binmap':
                F.new_binary_mapping(a[0], a[1])
            elif kind == 'bip':
                F.new_bipartite_edges(scope.mk_bipartite(a[0], a[1], a[2]))
            elif kind == 'graph':
                F.new_graph_edges(scope.mk_graph(a[0], a[1]))
            elif kind == 'digraph':
                F.new_digraph_edges(scope.mk_digraph(a[0], a[1]))
            else:
                raise KeyError(kind)
            known = False
            grow(F.number_of_variables())
        elif op == 'hdr':
            F.header[st[1]] = st[2]
        elif op == 'render':
            # an earlier rendering of the same object (its text is discarded):
            # what is rendered later must be the formula as it is then
            if st[1] == 'opb':
                F.to_opb()
            elif st[1] == 'latex':
                F.to_latex()
            elif st[1] == 'file-opb':
                F.to_file(io.StringIO(), fileformat='opb', export_header=True, export_varnames=True)
            elif st[1] == 'file-latex':
                F.to_file(io.StringIO(), fileformat='latex')
            elif st[1] == 'names':
                list(F.all_variable_labels())
            else:
                raise KeyError(st[1])
        elif op == 'cl-last':
            n_ = F.number_of_variables()
            F.add_clause([1, -n_] if n_ >= 2 else [])
        elif op == 'con-last':
            n_ = F.number_of_variables()
            if hasattr(F, 'add_constraint'):
                F.add_constraint([(2, n_), (1, -1), '>=', 2] if n_ >= 2 else ['>=', 0])
            else:
                F.add_clause([n_, -1] if n_ >= 2 else [])
        elif op == 'nv+':
            F.update_variable_number(F.number_of_variables() + st[1])
            grow(F.number_of_variables())
        else:
            raise KeyError(op)
    grow(F.number_of_variables())
    return F, (names if known else None)


def _g(n, edges):
    return scope.mk_graph(n, edges)


def _b(L, R, edges):
    return scope.mk_bipartite(L, R, edges)


def _d(n, edges):
    return scope.mk_digraph(n, edges)


C4 = [(1, 2), (2, 3), (3, 4), (1, 4)]
K3 = [(1, 2), (1, 3), (2, 3)]
P3 = [(1, 2), (2, 3)]
PYR = [(1, 3), (2, 3)]
B32 = [(1, 1), (1, 2), (2, 1), (3, 2)]
B33 = [(1, 1), (1, 2), (2, 2), (2, 3), (3, 1), (3, 3), (1, 3)]


def _fam_table():
    import cnfgen as c
    return {
        'php': lambda fc: c.PigeonholePrinciple(3, 2, formula_class=fc),
        'php_fo': lambda fc: c.PigeonholePrinciple(3, 3, functional=True, onto=True, formula_class=fc),
        'php_0': lambda fc: c.PigeonholePrinciple(0, 0, formula_class=fc),
        'php_10': lambda fc: c.PigeonholePrinciple(1, 0, formula_class=fc),
        'php_54': lambda fc: c.PigeonholePrinciple(5, 4, formula_class=fc),
        'php_65': lambda fc: c.PigeonholePrinciple(6, 5, formula_class=fc),
        'gphp': lambda fc: c.GraphPigeonholePrinciple(_b(3, 2, B32), formula_class=fc),
        'bphp': lambda fc: c.BinaryPigeonholePrinciple(3, 3, formula_class=fc),
        'rphp': lambda fc: c.RelativizedPigeonholePrinciple(2, 2, 2, formula_class=fc),
        'count': lambda fc: c.CountingPrinciple(4, 2, formula_class=fc),
        'matching': lambda fc: c.PerfectMatchingPrinciple(_g(4, C4), formula_class=fc),
        'subsetcard': lambda fc: c.SubsetCardinalityFormula(_b(3, 3, B33), formula_class=fc),
        'subsetcard_eq': lambda fc: c.SubsetCardinalityFormula(_b(3, 3, B33), equalities=True, formula_class=fc),
        'cliquecol': lambda fc: c.CliqueColoring(3, 2, 2, formula_class=fc),
        'tseitin': lambda fc: c.TseitinFormula(_g(3, K3), formula_class=fc),
        'kcolor': lambda fc: c.GraphColoringFormula(_g(3, P3), 2, formula_class=fc),
        'evencolor': lambda fc: c.EvenColoringFormula(_g(4, C4), formula_class=fc),
        'domset': lambda fc: c.DominatingSet(_g(4, C4), 2, formula_class=fc),
        'domset_alt': lambda fc: c.DominatingSet(_g(4, C4), 2, alternative=True, formula_class=fc),
        'tiling': lambda fc: c.Tiling(_g(3, P3), formula_class=fc),
        'iso': lambda fc: c.GraphIsomorphism(_g(3, P3), _g(3, K3), formula_class=fc),
        'auto': lambda fc: c.GraphAutomorphism(_g(3, P3), formula_class=fc),
        'op': lambda fc: c.OrderingPrinciple(3, formula_class=fc),
        'op_total': lambda fc: c.OrderingPrinciple(3, total=True, formula_class=fc),
        'op_plant': lambda fc: c.OrderingPrinciple(3, plant=True, formula_class=fc),
        'gop': lambda fc: c.GraphOrderingPrinciple(_g(3, P3), formula_class=fc),
        'peb': lambda fc: c.PebblingFormula(_d(3, PYR), formula_class=fc),
        'stone': lambda fc: c.StoneFormula(_d(3, PYR), 2, formula_class=fc),
        'sparsestone': lambda fc: c.SparseStoneFormula(_d(3, PYR), _b(3, 2, B32 + [(2, 2), (3, 1)]), formula_class=fc),
        'ramsey': lambda fc: c.RamseyNumber(3, 3, 4, formula_class=fc),
        'ptn': lambda fc: c.PythagoreanTriples(13, formula_class=fc),
        'vdw': lambda fc: c.VanDerWaerden(5, 2, 3, formula_class=fc),
        'randkcnf': lambda fc: c.RandomKCNF(3, 5, 7, seed=12, formula_class=fc),
        'randkxor': lambda fc: c.RandomKXOR(2, 4, 3, seed=5, formula_class=fc),
        'subgraph': lambda fc: c.SubgraphFormula(_g(4, C4), _g(3, P3), formula_class=fc),
        'kclique': lambda fc: c.CliqueFormula(_g(4, C4), 2, formula_class=fc),
        'bkclique': lambda fc: c.BinaryCliqueFormula(_g(4, C4), 2, formula_class=fc),
        'ramlb': lambda fc: c.RamseyWitnessFormula(_g(4, C4), 3, 3, formula_class=fc),
        'cpls': lambda fc: c.CPLSFormula(2, 2, 2, formula_class=fc),
        # transformed formulas (names that start with a brace group); CNF only
        'T_ite': lambda fc: c.IfThenElseSubstitution(c.CNF([[1, -2], [-1]])),
        'T_xor': lambda fc: c.XorSubstitution(c.PigeonholePrinciple(2, 1), 2),
        'T_lift': lambda fc: c.FormulaLifting(c.CNF([[1, -2]]), 2),
        'T_or': lambda fc: c.OrSubstitution(c.OrderingPrinciple(2), 2),
        'T_maj': lambda fc: c.MajoritySubstitution(c.CNF([[1, -2], []]), 3),
        'T_flip': lambda fc: c.FlipPolarity(c.PigeonholePrinciple(2, 2)),
        'T_shuffle': lambda fc: c.Shuffle(c.PigeonholePrinciple(3, 2),
                                          polarity_flips=[1, -1, 1, -1, 1, -1],
                                          variables_permutation=[2, 1, 4, 3, 6, 5],
                                          clauses_permutation=[8, 7, 6, 5, 4, 3, 2, 1, 0]),
    }


FAMILIES = ['php', 'php_fo', 'php_0', 'php_10', 'php_54', 'php_65', 'gphp',
            'bphp', 'rphp', 'count', 'matching', 'subsetcard', 'subsetcard_eq',
            'cliquecol', 'tseitin', 'kcolor', 'evencolor', 'domset',
            'domset_alt', 'tiling', 'iso', 'auto', 'op', 'op_total',
            'op_plant', 'gop', 'peb', 'stone', 'sparsestone', 'ramsey', 'ptn',
            'vdw', 'randkcnf', 'randkxor', 'subgraph', 'kclique', 'bkclique',
            'ramlb', 'cpls']
TRANSFORMED = ['T_ite', 'T_xor', 'T_lift', 'T_or', 'T_maj', 'T_flip', 'T_shuffle']


def fam_build(name, cls):
    return _fam_table()[name](cls)


# ======================================================================
# what is in memory
# ======================================================================
def snapshot(F):
    """(is_cnf, numvars, rows) with rows = [(terms, relation, degree)] in the
    vocabulary of the readers ('>=' / '=')."""
    from cnfgen.formula.basecnf import BaseCNF
    is_cnf = isinstance(F, BaseCNF)
    rows = []
    for i in range(len(F)):
        row = F[i]
        if is_cnf:
            rows.append(([(1, l) for l in row], '>=', 1))
        else:
            rel = {'>=': '>=', '==': '='}.get(row[-2], repr(row[-2]))
            rows.append(([(c, l) for (c, l) in row[:-2]], rel, row[-1]))
    return is_cnf, F.number_of_variables(), rows


def expected_names(F, refnames, nv):
    if refnames is not None:
        return list(refnames[:nv]) + [None] * (nv - len(refnames))
    labels = list(F.all_variable_labels())
    out = []
    for i in range(1, nv + 1):
        nm = labels[i - 1] if i <= len(labels) else None
        if nm == 'x%d' % i:
            nm = None
        out.append(nm)
    return out


def _nobrace(s):
    return ''.join(ch for ch in s if ch not in '{} \t\n')


def name_ok(exp, i, got):
    if exp == ANY:
        return bool(got)
    if exp is None:
        return got in ('x%d' % i, 'x_%d' % i, 'x_{%d}' % i)
    if got == exp:
        return True
    if exp.startswith('{') and _nobrace(got) == _nobrace(exp):
        return True
    return False


# ======================================================================
# renderings
# ======================================================================
EXTRA = 'Some text with $x_1 \\lor \\neg x_2$ and 100\\% of \\verb|a&b|.\n\n'


def renderings(full=True):
    out = [{'via': 'to_opb'}]
    for hdr in (False, True):
        for names in (False, True):
            out.append({'via': 'to_file', 'fmt': 'opb', 'hdr': hdr, 'names': names})
    out.append({'via': 'to_latex'})
    for hdr in (False, True):
        for extra in (('', EXTRA) if full else ('',)):
            out.append({'via': 'to_file', 'fmt': 'latex', 'hdr': hdr, 'extra': extra})
    return out


def via_name(r):
    if r['via'] == 'to_file':
        return 'to_file[%s]' % r['fmt']
    return r['via']


def render(F, r):
    if r['via'] == 'to_opb':
        return F.to_opb()
    if r['via'] == 'to_latex':
        return F.to_latex()
    s = io.StringIO()
    F.to_file(s, fileformat=r['fmt'], export_header=r['hdr'],
              export_varnames=r.get('names', False),
              extra_text=r.get('extra', ''))
    return s.getvalue()


# ======================================================================
# oracles
# ======================================================================
def check_opb_text(text, nv, rows, stats):
    """Returns None or (symptom, what)."""
    info = {}
    try:
        N, M, cons = rd.read_opb(text, info)
    except rd.FormatError as e:
        return (e.kind, e.message)
    stats['opb_texts_read'] += 1
    stats['opb_constraint_lines_read'] += len(cons)
    stats['opb_comment_lines_read'] += len(info['comments'])
    stats['opb_lines_with_semicolon'] += info['semicolons']
    if N != nv:
        return ('opb-variables-declared',
                '#variable= %d but the formula has %d variables' % (N, nv))
    if M != len(rows):
        return ('opb-constraints-declared',
                '#constraint= %d but the formula has %d' % (M, len(rows)))
    for k, (exp, got) in enumerate(zip(rows, cons)):
        eterms, erel, edeg = exp
        gterms, grel, gdeg = got
        if len(eterms) != len(gterms):
            return ('opb-term-count', 'constraint %d: memory %r, file %r' % (k, exp, got))
        for (ec, el), (gc, gl) in zip(eterms, gterms):
            if abs(el) != abs(gl):
                return ('opb-variable', 'constraint %d: memory %r, file %r' % (k, exp, got))
            if el != gl:
                return ('opb-polarity', 'constraint %d: memory %r, file %r' % (k, exp, got))
            if ec != gc:
                return ('opb-coefficient', 'constraint %d: memory %r, file %r' % (k, exp, got))
            if gl < 0:
                stats['opb_negative_literals_read'] += 1
            if gc > 1:
                stats['opb_coefficients_gt1_read'] += 1
        if erel != grel:
            return ('opb-relation', 'constraint %d: memory %r, file %r' % (k, exp, got))
        if edeg != gdeg:
            return ('opb-degree', 'constraint %d: memory %r, file %r' % (k, exp, got))
        if grel == '=':
            stats['opb_equalities_read'] += 1
        if not gterms:
            stats['opb_empty_constraints_read'] += 1
    return None


def check_latex_blocks(blocks, nv, rows, names, stats, outcomes, document):
    if not rows:
        if blocks != ['top']:
            return ('latex-empty-formula-marker',
                    'empty formula rendered as %r' % (blocks,))
        stats['latex_top_blocks'] += 1
        return None
    got = []
    for b in blocks:
        if b == 'top':
            return ('latex-empty-formula-marker',
                    'formula with %d rows contains a \\top block' % len(rows))
        if not b:
            return ('latex-empty-block', 'an align environment has no rows')
        got.extend(b)
    if document:
        outcomes['latex_block_sizes:%s' % ','.join(
            str(len(b)) for b in blocks)[:60]] += 1
        if len(blocks) > 1:
            stats['latex_multiblock_documents'] += 1
    if len(got) != len(rows):
        return ('latex-row-count', '%d rows in memory, %d rows rendered (blocks %r)'
                % (len(rows), len(got), [len(b) for b in blocks]))
    for k, (exp, g) in enumerate(zip(rows, got)):
        eterms, erel, edeg = exp
        if g['kind'] == 'clause':
            gterms = [(1, n, p) for (n, p) in g['lits']]
            grel, gdeg = '>=', 1
            if g['square']:
                stats['latex_empty_clause_rows'] += 1
        else:
            gterms, grel, gdeg = g['terms'], g['rel'], g['bound']
        where = 'row %d: memory %r, rendered %r' % (k, exp, (gterms, grel, gdeg))
        if len(gterms) != len(eterms):
            return ('latex-literal-count', where)
        for (ec, el), (gc, gname, gpol) in zip(eterms, gterms):
            v = abs(el)
            if not name_ok(names[v - 1], v, gname):
                return ('latex-name', where + ' expected name %r' % (names[v - 1],))
            if gpol != (el > 0):
                return ('latex-polarity', where)
            if gc != ec:
                return ('latex-coefficient', where)
            if not gpol:
                stats['latex_negative_literals_read'] += 1
            if gc > 1:
                stats['latex_coefficients_gt1_read'] += 1
            if names[v - 1] is not None:
                stats['latex_named_literals_read'] += 1
        if grel != erel:
            return ('latex-relation', where)
        if gdeg != edeg:
            return ('latex-bound', where)
    stats['latex_rows_read'] += len(got)
    return None


def check_text(fmt, snippet, text, mem, names, stats, outcomes):
    is_cnf, nv, rows = mem
    if fmt == 'opb':
        return check_opb_text(text, nv, rows, stats)
    if fmt == 'latex':
        try:
            if snippet:
                blocks = rd.read_latex_snippet(text)
                if len(blocks) != 1:
                    return ('latex-snippet-blocks', '%d align blocks' % len(blocks))
            else:
                doc = rd.read_latex_document(text)
                blocks = doc['blocks']
                c = doc['counts']
                outcomes['latex_document_counts_line:%s' % (
                    'absent' if c is None else
                    'true' if c[:2] == (nv, len(rows)) else 'wrong')] += 1
        except rd.FormatError as e:
            return (e.kind, e.message)
        stats['latex_texts_read'] += 1
        return check_latex_blocks(blocks, nv, rows, names, stats, outcomes,
                                  not snippet)
    if fmt == 'dimacs':
        try:
            N, M, clauses = rd.read_dimacs(text)
        except rd.FormatError as e:
            return (e.kind, e.message)
        exp = [[l for (c, l) in t] for (t, r, d) in rows]
        if N != nv or M != len(rows) or clauses != exp:
            return ('dimacs-content', 'memory %r, file %r' % ((nv, exp), (N, clauses)))
        stats['dimacs_texts_read'] += 1
        return None
    raise KeyError(fmt)


# input classes that appear in violation keys: formulas over unnamed variables
# are one class, so that one defect of a writer maps to few keys
PLAIN_TAGS = {'scope', 'opb-scope', 'cnf-scope', 'long', 'io-classes',
              'normalised', 'seeded-extra', 'two-digit-indices'}


def check_case(recipe, renders, stats, outcomes, count=None):
    """Builds the formula of `recipe` and checks each rendering; returns
    violations."""
    tag = recipe.get('tag', 'scope')
    if tag in PLAIN_TAGS:
        tag = 'plain'
    out = []
    if 'fam' in recipe:
        try:
            F, refnames = build(recipe)
        except Exception as e:
            # whether a family can be built in a class is not this property
            outcomes['family-not-built:%s:%s:%s' % (recipe['fam'], recipe['cls'],
                                                    type(e).__name__)] += 1
            return out
    else:
        F, refnames = build(recipe)
    mem = snapshot(F)
    names = expected_names(F, refnames, mem[1])
    stats['formulas'] += 1
    nontrivial = any(t for (t, r, d) in mem[2])
    for r in renders:
        if count is not None:
            count(nontrivial)
        via = via_name(r)
        fmt = 'opb' if 'opb' in via else 'latex'
        try:
            text = render(F, r)
        except Exception as e:  # the writer failed: no rendering at all
            out.append({'key': '%s:%s:exception:%s' % (via, tag, type(e).__name__),
                        'what': '%s: %s' % (type(e).__name__, e),
                        'case': {'recipe': recipe, 'render': r}})
            outcomes['%s:exception' % via] += 1
            continue
        res = check_text(fmt, r['via'] != 'to_file', text, mem, names, stats, outcomes)
        if res is None:
            outcomes['%s:denotes-the-formula' % via] += 1
        else:
            outcomes['%s:%s' % (via, res[0])] += 1
            out.append({'key': '%s:%s:%s' % (via, tag, res[0]),
                        'what': res[1] + ' | text: %r' % text[:200],
                        'case': {'recipe': recipe, 'render': r}})
    # the formula must not be changed by rendering it
    mem2 = snapshot(F)
    if mem2 != mem:
        out.append({'key': 'render:%s:formula-modified' % tag,
                    'what': 'formula changed by rendering: %r -> %r' % (mem, mem2),
                    'case': {'recipe': recipe, 'render': renders[0]}})
    return out


# ======================================================================
# enumerators
# ======================================================================
def single_constraints():
    """Every PB constraint over <=3 distinct variables (every order), each
    term with coefficient in {1,2,3} and either polarity, both relations,
    degree 0..4: 1531 term sequences x 2 x 5 = 15310."""
    seqs = [()]
    for k in (1, 2, 3):
        for vs in itertools.permutations((1, 2, 3), k):
            for cps in itertools.product([(c, s) for c in (1, 2, 3) for s in (1, -1)], repeat=k):
                seqs.append(tuple((c, s * v) for (c, s), v in zip(cps, vs)))
    for terms in seqs:
        for rel in ('>=', '=='):
            for deg in range(5):
                yield [list(t) for t in terms], rel, deg


ALPHA_QUICK = [
    ([], '>=', 0), ([], '==', 1), ([(1, 1)], '>=', 1), ([(2, -1)], '==', 2),
    ([(1, 1), (1, 2)], '>=', 1), ([(1, -2), (1, 1)], '>=', 2),
    ([(3, 1), (2, -2), (1, 3)], '>=', 4), ([(1, -1), (2, -2), (3, -3)], '==', 3),
    ([(2, 3)], '>=', 0), ([(1, 1), (1, 1)], '>=', 1), ([(1, 1), (2, -1)], '==', 1),
    ([(3, -3), (3, 2)], '>=', 3), ([(1, 2), (1, -3)], '==', 0),
    ([(2, 1), (2, 2), (2, 3)], '>=', 4),
]


def alphabet(tier):
    if tier == 'quick':
        return ALPHA_QUICK
    extra = []
    k = 0
    for v in (1, 2, 3):
        for c in (1, 2, 3):
            for s in (1, -1):
                extra.append(([(c, s * v)], ('>=', '==')[k % 2], k % 5))
                k += 1
    extra += [([(3, -1), (1, 2)], '==', 4), ([(2, 2), (1, -1), (3, 3)], '>=', 0),
              ([], '>=', 4), ([(1, -3), (1, -2), (1, -1)], '>=', 2)]
    return ALPHA_QUICK + extra


def opb_sequences(tier):
    """Every sequence of <= 3 constraints of the alphabet x declared variable
    number in {not declared, 4}."""
    alpha = alphabet(tier)
    for m in range(4):
        for seq in itertools.product(range(len(alpha)), repeat=m):
            for decl in (0, 4):
                steps = [['nv', decl]] if decl else []
                for i in seq:
                    t, r, d = alpha[i]
                    steps.append(['con', [list(x) for x in t], r, d])
                yield {'cls': 'OPB', 'steps': steps, 'tag': 'opb-scope'}


def cnf_scope(tier):
    boxes = [(2, 3), (3, 2)] if tier == 'quick' else [(2, 3), (3, 3)]
    for v, m in boxes:
        for nv, clauses in scope.cnfs(v, m):
            yield nv, clauses
    for nv, clauses in scope.small_cnf_catalogue():
        yield nv, [list(c) for c in clauses]


def cnf_recipe(cls, nv, clauses):
    return {'cls': cls, 'tag': 'cnf-scope',
            'steps': [['nv', nv]] + [['cl', list(c)] for c in clauses]}


def long_recipes():
    out = []
    for m in (34, 35, 36, 69, 70, 71, 105, 106, 141):
        cl = []
        con = []
        for i in range(m):
            lits = [(j + 1) if (i >> j) & 1 else -(j + 1) for j in range(8)]
            # drop some literals so that rows have different widths
            lits = [l for j, l in enumerate(lits) if (i + j) % 3 != 0 or j == i % 8]
            cl.append(['cl', lits])
            con.append(['con', [[1 + (i + j) % 3, l] for j, l in enumerate(lits)],
                        ('>=', '==')[i % 2], i % 7])
        out.append({'cls': 'CNF', 'tag': 'long', 'steps': [['nv', 8]] + cl})
        out.append({'cls': 'OPB', 'tag': 'long', 'steps': [['nv', 8]] + cl})
        out.append({'cls': 'OPB', 'tag': 'long', 'steps': [['nv', 8]] + con})
    # wide rows: more literals / terms than a line of a page holds (12, 13, 14, 26, 60)
    for w in (12, 13, 14, 26, 60):
        lits = [(j + 1) if j % 3 else -(j + 1) for j in range(w)]
        out.append({'cls': 'CNF', 'tag': 'wide', 'steps': [['nv', w], ['cl', lits], ['cl', [1, -2]], ['cl', lits[::-1]]]})
        out.append({'cls': 'OPB', 'tag': 'wide', 'steps': [['nv', w], ['cl', lits],
                                                         ['con', [[1 + j % 4, l] for j, l in enumerate(lits)], '>=', w // 2],
                                                         ['con', [[2, l] for l in lits], '==', w]]})
    # sizes around typical buffer/block sizes of a writer (1024, 4096): a
    # writer that flushes in blocks must not repeat or drop rows
    for m in (1023, 1024, 1025, 4097):
        cl = []
        con = []
        for i in range(m):
            lits = [(j + 1) if (i >> j) & 1 else -(j + 1) for j in range(13)]
            lits = [l for j, l in enumerate(lits) if (i + j) % 4 != 0 or j == i % 13]
            cl.append(['cl', lits])
            con.append(['con', [[1 + (i + j) % 3, l] for j, l in enumerate(lits)],
                        ('>=', '==')[i % 2], i % 5])
        out.append({'cls': 'CNF', 'tag': 'long', 'steps': [['nv', 13]] + cl})
        out.append({'cls': 'OPB', 'tag': 'long', 'steps': [['nv', 13]] + con})
    # named variables across page splits
    for cls in ('CNF', 'OPB'):
        steps = [['block', [6, 7], 'p_{{{},{}}}']]
        for i in range(72):
            steps.append(['cl', [(i % 42) + 1, -(((i * 5) % 42) + 1), ((i * 11) % 42) + 1]])
        out.append({'cls': cls, 'tag': 'named-vars', 'steps': steps})
    return out


def named_recipes():
    """Formulas whose variables are named through the variable manager."""
    base = [
        ('named-vars', [['var', 'X'], ['var', 'Y_0'], ['block', [2, 2], 'z_{{{},{}}}'],
                        ['cl', [1, -2, 3, -6]], ['cl', [-1, 2]], ['cl', [-4, 5]]]),
        ('named-vars', [['block', [3], 'w^{}'], ['block', [2], 'q_{}'],
                        ['cl', [-1, 2, -3]], ['cl', [4, -5]], ['cl', []]]),
        ('named-vars', [['block', [2, 2], 'y^{{{}}}_{{{}}}'], ['block', [2, 2], 'a_{{{}}}^{{{}}}'],
                        ['cl', [-1, 4, -5, 8]], ['cl', [2, -7]]]),
        ('named-vars', [['block', [2, 3], 'e({},{})'], ['block', [2, 2], 'f({})={}'],
                        ['cl', [1, -6, 7, -10]], ['cl', [-2, 9]]]),
        ('named-vars', [['block', [3], 'A{}B'], ['var', 'C'], ['var', 'long_name_1'],
                        ['cl', [-1, 2, -4, -5]], ['cl', [5, 3]]]),
        ('named-vars', [['block', [2], '\\alpha_{{{}}}'], ['block', [2], '\\beta^{{{}}}'],
                        ['cl', [-1, 2, -3, 4]], ['cl', [-4]]]),
        ('named-vars', [['block', [2, 1, 2], 'v({},{},{})'], ['cl', [1, -4]], ['cl', [-2, 3]]]),
        ('named-vars', [['block', [3], 'x_{{{}}}'], ['cl', [3, -1]], ['cl', [-2]]]),
        # a block given without label gets the documented default X(i)
        ('named-vars', [['block', [2], 'X({})'], ['cl', [1, -2]]]),
        # underscore in first position, two underscores
        ('named-vars', [['var', '_u'], ['var', 'a_b_c'], ['cl', [-1, -2]], ['cl', [1, 2]]]),
        # unnamed variables before a named block (gap filled with defaults)
        ('named-vars', [['nv', 2], ['block', [2], 'z_{{{}}}'], ['cl', [1, -2, 3, -4]], ['cl', [-3, 2]]]),
        # unnamed variables after the named ones
        ('named-vars', [['var', 'X'], ['block', [2], 'z_{{{}}}'], ['nv', 5],
                        ['cl', [1, -2, 3, -4, 5]], ['cl', [-5, -1]]]),
        # raw clauses create variables 1,2 and only then a variable is named
        ('singleton-after-gap', [['cl', [1, -2]], ['var', 'X'], ['cl', [-3, 1]], ['cl', [3]]]),
        ('singleton-after-gap', [['nv', 1], ['var', 'X'], ['var', 'Y'], ['cl', [-1, 2, -3]]]),
        # new_variable() without a label (label is documented as optional)
        ('unlabelled-variable', [['var', None], ['cl', [1]], ['cl', [-1]]]),
        ('unlabelled-variable', [['var', 'X'], ['var', None], ['cl', [1, -2]]]),
        # very long labels
        ('named-vars', [['var', 'L' * 300], ['var', 'ab' * 150], ['cl', [1, -2]]]),
        # labels with characters a reader may take for a line break
        ('names-linebreak', [['var', 'a\rb'], ['var', 'c'], ['cl', [1, -2]]]),
        ('names-linebreak', [['var', 'a\n+1 x1 >= 1 ;'], ['var', 'c\r+1 x2 >= 1 ;'], ['cl', [1, -2]]]),
        ('names-linebreak', [['var', 'a\x0cb'], ['var', 'c\x1dd'], ['var', 'e\r\nf'], ['cl', [1, -2, 3]]]),
        # other variable groups (names through all_variable_labels)
        ('named-vars', [['group', 'comb', [4, 2]], ['cl', [1, -6]], ['cl', [-3, 4, 5]]]),
        ('named-vars', [['group', 'perm', [3, 2]], ['cl', [1, -6]], ['cl', [-3, 4]]]),
        ('named-vars', [['group', 'words', [2, 2]], ['cl', [1, -4]], ['cl', [-3, 2]]]),
        ('named-vars', [['group', 'mapping', [2, 3]], ['cl', [1, -6]], ['cl', [-3, 4]]]),
        ('named-vars', [['group', 'binmap', [2, 3]], ['cl', [1, -4]], ['cl', [-3, 2]]]),
        ('named-vars', [['group', 'bip', [2, 2, [[1, 1], [1, 2], [2, 2]]]], ['cl', [1, -3]], ['cl', [-2]]]),
        ('named-vars', [['group', 'graph', [3, [[1, 2], [2, 3]]]], ['cl', [1, -2]]]),
        ('named-vars', [['group', 'digraph', [3, [[1, 2], [1, 3], [2, 3]]]], ['cl', [1, -2, 3]]]),
    ]
    out = []
    for tag, steps in base:
        for cls in ('CNF', 'OPB'):
            out.append({'cls': cls, 'tag': tag, 'steps': steps})
            if cls == 'OPB':
                # the same names inside weighted constraints
                st2 = []
                k = 0
                for st in steps:
                    if st[0] == 'cl':
                        st2.append(['con', [[1 + (k + j) % 3, l] for j, l in enumerate(st[1])],
                                    ('>=', '==')[k % 2], 1 + k % 3])
                        k += 1
                    else:
                        st2.append(st)
                out.append({'cls': cls, 'tag': tag, 'steps': st2})
    return out


def misc_recipes(seed):
    out = []
    # classes without the variable manager
    for nv, clauses in scope.small_cnf_catalogue():
        out.append({'cls': 'CNFio', 'tag': 'io-classes',
                    'steps': [['nv', nv]] + [['cl', list(c)] for c in clauses]})
        out.append({'cls': 'OPBio', 'tag': 'io-classes',
                    'steps': [['nv', nv]] + [['cl', list(c)] for c in clauses]})
    out.append({'cls': 'OPBio', 'tag': 'io-classes',
                'steps': [['con', [[2, 1], [3, -2]], '==', 3], ['con', [], '>=', 1],
                          ['con', [[1, -3]], '>=', 0]]})
    # constraints that add_constraint normalises (memory is the reference)
    norm = [
        [[[1, 1], [2, -2]], '<=', 1], [[[1, 1], [2, 2], [3, 3]], '<', 3],
        [[[-2, 1], [3, -2]], '>=', 1], [[[-1, 1], [-1, 2]], '==', -1],
        [[[1, 1]], '>', 0], [[[2, 1], [2, -3]], '<=', 0], [[[1, 2]], '<=', 3],
        [[[1, 1], [1, 2]], '>=', -2], [[], '<=', 0], [[[5, 1], [12, -2]], '>=', 13],
        [[[100, 3], [7, -1]], '==', 107],
        # integers that a float cannot hold exactly (coefficients and degrees are
        # arbitrary Python integers)
        [[[2 ** 53 + 1, 1], [3, -2]], '>=', 2 ** 53 + 2], [[[2 ** 63 - 1, 2], [1, 3]], '==', 2 ** 63 - 1],
        [[[10 ** 18 + 3, 1], [10 ** 18 + 1, 2]], '>=', 10 ** 18 + 7],
        [[[1, 1], [1, 2]], '>=', 2 ** 64 + 1],
    ]
    for k in range(len(norm)):
        steps = [['con'] + norm[(k + j) % len(norm)] for j in range(3)]
        out.append({'cls': 'OPB', 'tag': 'normalised', 'steps': steps})
    # coefficient 0 is accepted by add_constraint(check=True)
    out.append({'cls': 'OPB', 'tag': 'coefficient-0',
                'steps': [['con', [[0, 1], [2, -2]], '>=', 1]]})
    out.append({'cls': 'OPB', 'tag': 'coefficient-0',
                'steps': [['con', [[1, 1]], '>=', 1], ['con', [[3, 2], [0, -1]], '==', 3]]})
    # many variables (two-digit indices), unused declared variables
    out.append({'cls': 'CNF', 'tag': 'two-digit-indices',
                'steps': [['nv', 25], ['cl', [10, -11, 12]], ['cl', [-1, 20, -21]], ['cl', [25]]]})
    out.append({'cls': 'OPB', 'tag': 'two-digit-indices',
                'steps': [['nv', 25], ['con', [[2, 10], [3, -11]], '>=', 2],
                          ['con', [[1, -1], [1, 20], [1, -21]], '==', 1]]})
    # `seed` rotates a few extra mid-size formulas
    rng = random.Random(seed)
    for k in range(6):
        nv = rng.randint(4, 9)
        steps = [['nv', nv + rng.randint(0, 2)]]
        for i in range(rng.randint(1, 9)):
            vs = rng.sample(range(1, nv + 1), rng.randint(0, min(5, nv)))
            steps.append(['con', [[rng.randint(1, 9), v * rng.choice((1, -1))] for v in vs],
                          rng.choice(('>=', '==')), rng.randint(0, 12)])
        out.append({'cls': 'OPB', 'tag': 'seeded-extra', 'steps': steps})
    return out


def history_recipes(tier):
    """Objects with a past: every sequence of <= 3 (4) operations that renders
    at least once and changes the object afterwards, on two start formulas."""
    depth = 4 if tier == 'thorough' else 3
    renders = [['render', k] for k in ('opb', 'latex', 'file-opb', 'file-latex', 'names')]
    changes = [['nv+', 1], ['var', 'Z'], ['block', [2], 'w_{{{}}}'], ['cl-last'], ['con-last'],
               ['hdr', 'note', 'added later']]
    alphabet = renders + changes
    bases = [('CNF', [['var', 'X'], ['var', 'Y'], ['cl', [1, -2]]]),
             ('OPB', [['nv', 2], ['con', [[2, 1], [3, -2]], '>=', 2], ['cl', [-1, 2]]]),
             ('OPB', [])]
    out = []
    for L in range(2, depth + 1):
        for ops in itertools.product(range(len(alphabet)), repeat=L):
            first = next((i for i, o in enumerate(ops) if o < len(renders)), None)
            if first is None or all(o < len(renders) for o in ops[first:]):
                continue
            cls, base = bases[len(out) % len(bases)]
            out.append({'cls': cls, 'tag': 'history', 'steps': base + [alphabet[o] for o in ops]})
    return out


def pair_recipes():
    out = []
    for terms, rel, deg in [([[1, 1], [2, -2]], '>=', 2), ([[3, 1], [1, 2], [2, 3]], '==', 3),
                            ([[1, -1]], '>=', 1), ([[0, 1], [2, 2]], '>=', 1), ([[2, 1], [2, -2]], '>=', 5)]:
        out.append({'cls': 'OPB', 'tag': 'pairs-as-lists', 'steps': [['nv', 3], ['con-lists', terms, rel, deg]]})
        out.append({'cls': 'OPB', 'tag': 'pairs-as-lists',
                    'steps': [['nv', 3], ['con', terms, rel, deg], ['con-lists', terms, rel, deg]]})
    out.append({'cls': 'OPB', 'tag': 'pairs-as-lists',
                'steps': [['con-from', [[[[1, 1], [2, -2]], '>=', 2], [[[1, 3]], '==', 1]]]]})
    return out


def header_recipes():
    out = []
    body = [['nv', 3], ['cl', [1, -2]], ['cl', [-3]]]
    variants = [
        ('header', 'plain description', []),
        ('header', '* starts with a star', []),
        ('header', 'with_underscore and a * star', []),
        ('header', 'unicode \u2227 \u00e9 description', []),
        ('header', '', []),
        ('header', '  surrounded by spaces  ', []),
        ('header', 'extra fields', [['hdr', 'count', 12], ['hdr', 'note', '+1 x1 >= 1'],
                                    ['hdr', 'p cnf 3 2', '>= 1']]),
        # longer than any line length a writer may want to fold at (80, 255, 1024)
        ('header', 'a very long description ' + 'word +1 x1 >= 1 ' * 80, []),
        ('header', 'fields', [['hdr', 'command line', 'cnfgen ' + '--option value ' * 30],
                              ['hdr', 'unbroken', 'x' * 1100]]),
        ('header-newline', 'first line\nsecond line', []),
        ('header-newline', 'fields', [['hdr', 'note', 'a\nb']]),
        ('header-newline', 'fields', [['hdr', 'note', 'a\n+1 x1 >= 1']]),
        # every character str.splitlines() or a text-mode reader takes for a line break
        ('header-newline', 'old Mac\rline break', []),
        ('header-newline', 'fields', [['hdr', 'note', 'a\r+1 x1 >= 1']]),
        ('header-newline', 'fields', [['hdr', 'note', 'a\r\n+1 x2 >= 1 ;']]),
        ('header-newline', 'fields', [['hdr', 'note', 'a\x0c+1 x1 >= 1'], ['hdr', 'n2', 'a\x0b+1 x1 >= 1']]),
        ('header-newline', 'fields', [['hdr', 'note', 'a\x1c+1 x1 >= 1'], ['hdr', 'n2', 'a\x1e+1 x1 >= 1']]),
        ('header-newline', 'fields', [['hdr', 'note', 'a\x85+1 x1 >= 1'], ['hdr', 'n2', 'a\u2028+1 x1 >= 1']]),
        ('header-newline', 'fields', [['hdr', 'a\rb', 'value'], ['hdr', 'trailing', 'cr\r']]),
    ]
    for tag, desc, hdr in variants:
        for cls in ('CNF', 'OPB'):
            out.append({'cls': cls, 'tag': tag, 'desc': desc, 'steps': body + hdr})
    return out


# ======================================================================
# shards
# ======================================================================
def shards(tier, seed):
    out = []
    K1 = 8
    for k in range(K1):
        out.append(('opb1-%02d' % k, 'run_single', {'k': k, 'K': K1}))
    K2 = 8 if tier == 'quick' else 16
    for k in range(K2):
        out.append(('opbseq-%02d' % k, 'run_sequences', {'k': k, 'K': K2, 'tier': tier}))
    K3 = 12 if tier == 'quick' else 32
    for k in range(K3):
        out.append(('cnf-%02d' % k, 'run_cnfs', {'k': k, 'K': K3, 'tier': tier}))
    K4 = 6
    for k in range(K4):
        out.append(('family-%02d' % k, 'run_families', {'k': k, 'K': K4}))
    out.append(('named-0', 'run_catalogue', {'what': 'named', 'k': 0, 'K': 2, 'seed': seed}))
    out.append(('named-1', 'run_catalogue', {'what': 'named', 'k': 1, 'K': 2, 'seed': seed}))
    for k in range(12):
        out.append(('long-%02d' % k, 'run_catalogue', {'what': 'long', 'k': k, 'K': 12, 'seed': seed}))
    out.append(('misc', 'run_catalogue', {'what': 'misc', 'k': 0, 'K': 1, 'seed': seed}))
    out.append(('header', 'run_catalogue', {'what': 'header', 'k': 0, 'K': 1, 'seed': seed}))
    out.append(('pairs', 'run_catalogue', {'what': 'pairs', 'k': 0, 'K': 1, 'seed': seed}))
    for k in range(4):
        out.append(('history-%d' % k, 'run_catalogue', {'what': 'history', 'k': k, 'K': 4, 'tier': tier}))
    out.append(('format-CNF', 'run_formats', {'cls': 'CNF'}))
    out.append(('format-OPB', 'run_formats', {'cls': 'OPB'}))
    out.append(('guess', 'run_guess', {}))
    out.append(('cli-cnfgen', 'run_cli', {'tool': 'cnfgen'}))
    out.append(('cli-pbgen', 'run_cli', {'tool': 'pbgen'}))
    return out


_REVERSE = [False]


def _run(recipes, renders, R, sample_every=997):
    n = 0
    if _REVERSE[0]:
        recipes = reversed(list(recipes))
    for rec in recipes:
        def count(nontrivial, rec=rec):
            R.case(nontrivial=nontrivial)
        vs = check_case(rec, renders, R.stats, R.outcomes, count)
        if n % sample_every == 0:
            R.case(sample={'recipe': rec if len(str(rec)) < 300 else
                           {'cls': rec['cls'], 'tag': rec.get('tag'),
                            'steps': '%d steps' % len(rec.get('steps', []))},
                           'renderings': len(renders)}, n=0)
        n += 1
        R.extend(vs)


def run_single(args, R):
    _REVERSE[0] = bool(args.get('reverse'))
    recs = ({'cls': 'OPB', 'tag': 'opb-scope',
             'steps': [['nv', 3], ['con', t, r, d]]}
            for i, (t, r, d) in enumerate(single_constraints())
            if i % args['K'] == args['k'])
    _run(recs, renderings(full=True), R)


def run_sequences(args, R):
    _REVERSE[0] = bool(args.get('reverse'))
    recs = (rec for i, rec in enumerate(opb_sequences(args['tier']))
            if i % args['K'] == args['k'])
    _run(recs, renderings(full=False), R)


def run_cnfs(args, R):
    _REVERSE[0] = bool(args.get('reverse'))
    def gen():
        for i, (nv, clauses) in enumerate(cnf_scope(args['tier'])):
            if i % args['K'] != args['k']:
                continue
            yield cnf_recipe('CNF', nv, clauses)
            yield cnf_recipe('OPB', nv, clauses)
    _run(gen(), renderings(full=False), R)


def run_families(args, R):
    _REVERSE[0] = bool(args.get('reverse'))
    recs = []
    for i, name in enumerate(FAMILIES):
        recs.append({'cls': 'CNF', 'fam': name, 'tag': 'family'})
        recs.append({'cls': 'OPB', 'fam': name, 'tag': 'family'})
    for name in TRANSFORMED:
        recs.append({'cls': 'CNF', 'fam': name, 'tag': 'transformed'})
    recs = [r for i, r in enumerate(recs) if i % args['K'] == args['k']]
    _run(recs, renderings(full=True), R, sample_every=5)


def run_catalogue(args, R):
    _REVERSE[0] = bool(args.get('reverse'))
    what = args['what']
    if what == 'named':
        recs = named_recipes()
    elif what == 'long':
        recs = long_recipes()
    elif what == 'misc':
        recs = misc_recipes(args.get('seed', 0))
    elif what == 'history':
        recs = history_recipes(args.get('tier', 'quick'))
    elif what == 'pairs':
        recs = pair_recipes()
    else:
        recs = header_recipes()
    recs = [r for i, r in enumerate(recs) if i % args['K'] == args['k']]
    _run(recs, renderings(full=True), R, sample_every=7)


# ---------------------------------------------------------------- formats --
REQUESTS = [None, 'latex', 'dimacs', 'opb', 'bogus']
TARGETS = ['path:out.tex', 'path:out.opb', 'path:out.cnf', 'path:out',
           'path:opb', 'path:tex', 'path:.opb', 'path:.tex', 'path:out.tex.', 'path:out.TEX',
           'path:dir.tex/out', 'path:out.tex.cnf',
           'file:out.tex', 'file:out.opb', 'file:out.cnf', 'file:out',
           'stringio', 'stringio-named:x.tex', 'stringio-named:x.opb',
           'stdout', 'tmpfile']


def target_extension(target):
    """Extension the documentation speaks about ('tex', 'opb' or other)."""
    kind, _, name = target.partition(':')
    if kind in ('stringio', 'stdout', 'tmpfile'):
        return ''
    base = name.rsplit('/', 1)[-1]
    # as os.path.splitext: a name that merely STARTS with a dot has no extension
    return os.path.splitext(base)[1][1:]


def expected_format(cls, request, target):
    """Documented format selection.  Returns a set of acceptable outcomes."""
    if request == 'bogus':
        return {'ValueError'}
    if request in ('latex', 'opb'):
        return {request}
    if request == 'dimacs':
        # an OPB formula has no DIMACS form: OPB text or a refusal
        return {'dimacs'} if cls == 'CNF' else {'opb', 'ValueError'}
    ext = target_extension(target)
    if ext == 'tex':
        return {'latex'}
    if cls == 'CNF':
        return {'opb'} if ext == 'opb' else {'dimacs'}
    return {'opb'}


FORMAT_FORMULAS = [
    {'steps': [['var', 'X'], ['block', [2], 'z_{{{}}}'], ['cl', [1, -2]], ['cl', [-3, 2]], ['cl', []]]},
    {'steps': []},
    # names that are not ASCII: two distinct variables stay distinct in every target
    {'steps': [['var', '\u03b1'], ['var', '\u03b2_\u00e9'], ['var', 'x'], ['cl', [1, -2]], ['cl', [-1, 2, 3]]]},
]


def do_format_case(case, stats, outcomes):
    """One (class, formula, request, target): call to_file, read what was
    written, identify and check it.  Returns violations."""
    cls, request, target = case['cls'], case['request'], case['target']
    recipe = dict(FORMAT_FORMULAS[case['formula']], cls=cls)
    F, refnames = build(recipe)
    mem = snapshot(F)
    names = expected_names(F, refnames, mem[1])
    accept = expected_format(cls, request, target)
    kind, _, name = target.partition(':')
    tclass = kind + ('.' + target_extension(target) if target_extension(target) else '')
    keybase = 'to_file:%s:request=%s' % (tclass if kind != 'path' or name in
                                         ('out.tex', 'out.opb', 'out.cnf', 'out')
                                         else 'path=' + name, request)
    tmp = tempfile.mkdtemp(prefix='c12fmt')
    text = None
    outcome = None
    try:
        path = os.path.join(tmp, name) if name else None
        if path and os.path.dirname(path) != tmp:
            os.makedirs(os.path.dirname(path), exist_ok=True)
        try:
            if kind == 'path':
                F.to_file(path, fileformat=request)
                with open(path, encoding='utf-8') as f:
                    text = f.read()
                # the same call onto a path that already holds something:
                # a longer file (an earlier, larger benchmark under the same
                # name) and a shorter one; what is delivered is the rendering
                # and nothing else (seeded change C12-s21: no truncation)
                for tag, old_text in (('longer', text + '* stale\n+1 x1 +1 x2 >= 1 ;\n' * 40
                                       + '1 -2 0\n\\stale & row \\\\\n' * 40),
                                      ('shorter', text[:max(0, len(text) // 2)]),
                                      ('one-more', text + ';')):
                    with open(path, 'w', encoding='utf-8') as f:
                        f.write(old_text)
                    F2, _ = build(recipe)
                    F2.to_file(path, fileformat=request)
                    with open(path, encoding='utf-8') as f:
                        text2 = f.read()
                    stats['to_file_over_existing'] += 1
                    if text2 != text:
                        outcomes['fmt:existing-file-shows'] += 1
                        return [{'key': '%s:existing-%s-file:content-differs' % (keybase, tag),
                                 'what': 'to_file onto a path that held a %s file delivers %r... '
                                         '(%d characters) instead of the %d characters written '
                                         'onto a fresh path' % (tag, text2[-80:], len(text2), len(text)),
                                 'case': case}]
            elif kind == 'file':
                with open(path, 'w', encoding='utf-8') as f:
                    F.to_file(f, fileformat=request)
                with open(path, encoding='utf-8') as f:
                    text = f.read()
            elif kind == 'stringio':
                s = io.StringIO()
                F.to_file(s, fileformat=request)
                text = s.getvalue()
            elif kind == 'stringio-named':
                s = io.StringIO()
                s.name = name
                F.to_file(s, fileformat=request)
                text = s.getvalue()
            elif kind == 'stdout':
                s = io.StringIO()
                with contextlib.redirect_stdout(s):
                    F.to_file(None, fileformat=request)
                text = s.getvalue()
            elif kind == 'tmpfile':
                with tempfile.TemporaryFile('w+', encoding='utf-8', dir=tmp) as f:
                    F.to_file(f, fileformat=request)
                    f.seek(0)
                    text = f.read()
            else:
                raise KeyError(kind)
        except ValueError:
            outcome = 'ValueError'
        except Exception as e:
            outcomes['fmt:exception:%s' % type(e).__name__] += 1
            return [{'key': '%s:exception:%s' % (keybase, type(e).__name__),
                     'what': '%s: %s' % (type(e).__name__, e), 'case': case}]
    finally:
        shutil.rmtree(tmp, ignore_errors=True)
    if outcome is None:
        outcome = rd.identify(text)
    outcomes['fmt:%s' % outcome] += 1
    if outcome not in accept:
        return [{'key': '%s:format-selected' % keybase,
                 'what': 'documented: %s; obtained: %s; text %r'
                 % (sorted(accept), outcome, (text or '')[:120]), 'case': case}]
    if outcome == 'ValueError':
        return []
    res = check_text(outcome, False, text, mem, names, stats, outcomes)
    if res is not None:
        # a content error is a defect of the writer, not of the selection
        return [{'key': 'to_file[%s]:format-selection:%s' % (outcome, res[0]),
                 'what': res[1], 'case': case}]
    return []


def run_formats(args, R):
    for fi in range(len(FORMAT_FORMULAS)):
        for request in REQUESTS:
            for target in TARGETS:
                case = {'kind': 'format', 'cls': args['cls'], 'formula': fi,
                        'request': request, 'target': target}
                R.case(sample=case if target == 'path:out.tex' else None,
                       nontrivial=(fi == 0))
                R.extend(do_format_case(case, R.stats, R.outcomes))


GUESS_NAMES = ['out.tex', 'out.opb', 'out.cnf', 'out', 'dir.tex/out',
               'out.tex.cnf', 'out.opb.tex', '/abs/path/f.tex', 'a.b.opb']


def do_guess_case(case, outcomes):
    from cnfgen.formula.cnfio import guess_output_format
    name, request, asobj = case['name'], case['request'], case['asobj']
    target = name
    if asobj:
        target = io.StringIO()
        target.name = name
    ext = target_extension('path:' + name)
    if request == 'bogus':
        expect = 'ValueError'
    elif request is not None:
        expect = request
    else:
        expect = {'tex': 'latex', 'opb': 'opb'}.get(ext, 'dimacs')
    try:
        got = guess_output_format(target, request)
    except ValueError:
        got = 'ValueError'
    except Exception as e:
        got = 'exception:' + type(e).__name__
    outcomes['guess:%s' % got] += 1
    if got != expect:
        return [{'key': 'guess_output_format:ext=%s:request=%s:%s' % (ext, request, got),
                 'what': 'guess_output_format(%r, %r) -> %r, documented %r'
                 % (name, request, got, expect), 'case': case}]
    return []


def run_guess(args, R):
    for name in GUESS_NAMES:
        for request in REQUESTS:
            for asobj in (False, True):
                case = {'kind': 'guess', 'name': name, 'request': request, 'asobj': asobj}
                R.case(nontrivial=True)
                R.extend(do_guess_case(case, R.outcomes))
    # informational only: behaviours the property does not speak about
    from cnfgen.formula.cnfio import guess_output_format
    for name, request in (('.tex', None), ('out.TEX', None), ('out.cnf', 'tex')):
        try:
            got = guess_output_format(name, request)
        except Exception as e:
            got = type(e).__name__
        R.outcomes['info:guess(%r,%r)=%s' % (name, request, got)] += 1


# -------------------------------------------------------------------- CLI --
CLI_FORMULAS = {
    'cnfgen': [['php', '3', '2'], ['op', '3'], ['count', '4', '2'], ['and', '2', '1'],
               ['php', '6', '5'], ['php', '3', '2', '-T', 'xor', '2']],
    'pbgen': [['php', '3', '2'], ['op', '3'], ['php', '6', '5'], ['count', '4', '2']],
}
CLI_OPTIONS = [
    [], ['-q'],
    ['-of', 'opb'], ['-q', '-of', 'opb'], ['--varnames', '-of', 'opb'],
    ['-of', 'latex'], ['-q', '-of', 'latex'], ['-l'],
    ['-o', '@out.opb'], ['-o', '@out.tex'], ['-q', '-o', '@out.tex'],
    ['-o', '@out.txt', '-of', 'opb'], ['-o', '@out.opb', '-of', 'latex'],
]


def do_cli_case(case, stats, outcomes):
    import cnfgen.clitools.msg as msg
    if case['tool'] == 'cnfgen':
        from cnfgen.clitools.cnfgen import cli
    else:
        from cnfgen.clitools.pbgen import cli
    tmp = tempfile.mkdtemp(prefix='c12cli')
    try:
        opts = []
        outpath = None
        fmt = None
        for o in case['options']:
            if o.startswith('@'):
                outpath = os.path.join(tmp, o[1:])
                opts.append(outpath)
            else:
                opts.append(o)
        # only an explicit request is binding: without one `pbgen` documents
        # "default: opb" and `cnfgen` documents "default: dimacs" while the
        # library rule looks at the extension; any of the formats is accepted
        # as long as the text denotes the formula
        o = case['options']
        if '-of' in o:
            fmt = o[o.index('-of') + 1]
        elif '-l' in o:
            fmt = 'latex'
        argv = [case['tool']] + opts + case['formula']
        keybase = 'cli:%s:%s' % (case['tool'], ' '.join(case['options']))
        msg._prefix = ''
        try:
            F = cli(argv, mode='formula')
            msg._prefix = ''
            so = io.StringIO()
            with contextlib.redirect_stdout(so), contextlib.redirect_stderr(io.StringIO()):
                cli(argv, mode='output')
            msg._prefix = ''
        except BaseException as e:
            msg._prefix = ''
            outcomes['cli:exception'] += 1
            return [{'key': '%s:exception:%s' % (keybase, type(e).__name__),
                     'what': '%s: %s' % (type(e).__name__, e), 'case': case}]
        if outpath:
            import gc
            gc.collect()
            with open(outpath, encoding='utf-8') as f:
                text = f.read()
        else:
            text = so.getvalue()
    finally:
        shutil.rmtree(tmp, ignore_errors=True)
    mem = snapshot(F)
    names = expected_names(F, None, mem[1])
    got = rd.identify(text)
    allowed = [fmt] if fmt else (['opb', 'latex'] + (['dimacs'] if case['tool'] == 'cnfgen' else []))
    outcomes['cli:%s%s->%s' % (case['tool'], '' if fmt else
                               ':no-request:' + (os.path.splitext(outpath)[1] if outpath else 'stdout'),
                               got)] += 1
    if got not in allowed:
        outcomes['cli:wrong-format'] += 1
        return [{'key': '%s:format-selected' % keybase,
                 'what': 'requested %s, output identified as %s: %r' % (fmt, got, text[:120]),
                 'case': case}]
    fmt = got
    res = check_text(fmt, False, text, mem, names, stats, outcomes)
    if res is not None:
        outcomes['cli:%s' % res[0]] += 1
        return [{'key': 'cli:%s:%s:%s' % (case['tool'], fmt, res[0]),
                 'what': res[1], 'case': case}]
    outcomes['cli:ok'] += 1
    return []


def run_cli(args, R):
    for formula in CLI_FORMULAS[args['tool']]:
        for options in CLI_OPTIONS:
            case = {'kind': 'cli', 'tool': args['tool'], 'formula': formula,
                    'options': options}
            R.case(sample=case if options == ['-l'] else None, nontrivial=True)
            R.extend(do_cli_case(case, R.stats, R.outcomes))


# ======================================================================
# replay
# ======================================================================
def replay(case):
    from collections import Counter
    setup_paths()
    stats, outcomes = Counter(), Counter()
    kind = case.get('kind')
    if kind == 'format':
        return do_format_case(case, stats, outcomes)
    if kind == 'guess':
        return do_guess_case(case, outcomes)
    if kind == 'cli':
        return do_cli_case(case, stats, outcomes)
    return check_case(case['recipe'], [case['render']], stats, outcomes)
