"""C01  Pigeonhole, matching, counting, subset-cardinality and clique-colouring
families encode exactly their principle.

Every instance of a small scope (all parameter tuples of a box, all bipartite
/ simple graphs up to a size) is built with the real generator and evaluated
on ALL 2^n assignments (engine.tt).  The model bitmap must equal the bitmap of
a reference predicate stated on the *named* atoms (ref.sem), and independent
corollaries (closed-form satisfiability, object counts obtained by brute-force
enumeration of the combinatorial objects) must agree.
"""
import itertools
from math import comb

from engine import tt, scope
from engine.common import setup_paths
from ref.sem import Sem

PROPERTY = 'C01'
LEVEL = 'exploration'
EXHAUSTIVE = True
RULE = ('every instance of the parameter boxes / every labelled (bipartite) '
        'graph up to the stated size, each evaluated on all 2^n assignments; '
        'an instance is non-trivial when it has at least one variable and one '
        'clause; instances are distinct by construction (enumerated once)')
ASSUMPTIONS = [
    'bounded scope: pigeons,holes<=4 (5 thorough), bipartite graphs <=3x3 '
    '(3x4,4x3 thorough), simple graphs <=5 (6) vertices, counting M<=7',
    'variable meaning is taken from the published names (all_variable_labels)',
    'reference predicates in checks/c01 are the documented meaning',
]
VACUITY = {'sat_instances': 20, 'unsat_instances': 20}


def preload():
    setup_paths()
    import cnfgen  # noqa


# --------------------------------------------------------------- helpers --
def perfect_matchings(n, edges):
    """Number of perfect matchings by direct recursion (independent)."""
    adj = scope.adjacency(n, edges)

    def rec(free):
        if not free:
            return 1
        u = min(free)
        tot = 0
        for v in adj[u]:
            if v in free and v != u:
                tot += rec(free - {u, v})
        return tot
    return rec(frozenset(range(1, n + 1)))


def partitions_into_blocks(M, p):
    """Number of partitions of [M] into blocks of size exactly p."""
    def rec(free):
        if not free:
            return 1
        u = min(free)
        rest = sorted(free - {u})
        tot = 0
        for others in itertools.combinations(rest, p - 1):
            tot += rec(free - {u} - set(others))
        return tot
    if p <= 0:
        return None
    return rec(frozenset(range(1, M + 1)))


def has_left_saturating_matching(L, R, edges):
    adj = {u: [v for (a, v) in edges if a == u] for u in range(1, L + 1)}

    def rec(u, used):
        if u > L:
            return True
        return any(rec(u + 1, used | {v}) for v in adj[u] if v not in used)
    return rec(1, frozenset())


def build(case):
    import cnfgen
    from cnfgen.formula.cnf import CNF
    from cnfgen.formula.opb import OPB
    fc = {'CNF': CNF, 'OPB': OPB}[case.get('cls', 'CNF')]
    fam = case['fam']
    a = case['args']
    if fam == 'php':
        return cnfgen.PigeonholePrinciple(a[0], a[1], functional=a[2], onto=a[3], formula_class=fc)
    if fam == 'gphp':
        B = scope.mk_bipartite(a[0], a[1], a[2])
        return cnfgen.GraphPigeonholePrinciple(B, functional=a[3], onto=a[4], formula_class=fc)
    if fam == 'bphp':
        return cnfgen.BinaryPigeonholePrinciple(a[0], a[1], formula_class=fc)
    if fam == 'rphp':
        return cnfgen.RelativizedPigeonholePrinciple(a[0], a[1], a[2], formula_class=fc)
    if fam == 'count':
        return cnfgen.CountingPrinciple(a[0], a[1], formula_class=fc)
    if fam == 'matching':
        G = scope.mk_graph(a[0], a[1])
        return cnfgen.PerfectMatchingPrinciple(G, formula_class=fc)
    if fam == 'subsetcard':
        B = scope.mk_bipartite(a[0], a[1], a[2])
        return cnfgen.SubsetCardinalityFormula(B, equalities=a[3], formula_class=fc)
    if fam == 'cliquecol':
        return cnfgen.CliqueColoring(a[0], a[1], a[2], formula_class=fc)
    raise KeyError(fam)


def reference(case, S):
    """(expected_bitmap, expected_numvars, closed_form_sat or None,
    expected_model_count or None)"""
    fam = case['fam']
    a = case['args']
    cons = []
    sat = None
    cnt = None
    if fam in ('php', 'gphp'):
        if fam == 'php':
            P, H, functional, onto = a
            edges = [(i, j) for i in range(1, P + 1) for j in range(1, H + 1)]
        else:
            P, H, edges, functional, onto = a
            edges = [tuple(e) for e in edges]
        nv = len(edges)
        for i in range(1, P + 1):
            row = [S.col('p', i, j) for (u, j) in edges if u == i]
            cons.append(S.card(row, '==' if functional else '>=', 1))
        for j in range(1, H + 1):
            colj = [S.col('p', i, j) for (i, v) in edges if v == j]
            cons.append(S.card(colj, '==' if onto else '<=', 1))
        # closed forms: a system of distinct representatives for the pigeons;
        # with onto every hole is used exactly once
        if fam == 'php':
            if functional and onto:
                sat = (P == H)
                cnt = _fact(P) if sat else 0
            elif functional:
                sat = P <= H
                cnt = _falling(H, P)
            elif onto:
                sat = (P <= H) and (P >= 1 or H == 0)
                cnt = None
            else:
                sat = P <= H
        else:
            if not onto:
                sat = has_left_saturating_matching(P, H, edges)
    elif fam == 'bphp':
        P, H = a
        bits = 0
        while (1 << bits) < H:
            bits += 1
        nv = P * bits
        for i in range(1, P + 1):
            eq = []
            for j in range(H):
                x = S.mask
                for b in range(bits):
                    c = S.col('v', i, b)
                    x &= c if (j >> b) & 1 else S.NOT(c)
                eq.append(x)
            case.setdefault('_eq', {})[i] = eq
            cons.append(S.OR(eq) if H > 0 else 0)
        for j in range(H):
            cons.append(S.card([case['_eq'][i][j] for i in range(1, P + 1)], '<=', 1))
        case.pop('_eq', None)
        sat = P <= H
        cnt = _falling(H, P)
    elif fam == 'rphp':
        M, T, N = a
        nv = M * T + T * N + T
        for u in range(1, M + 1):
            cons.append(S.card([S.col('p', u, v) for v in range(1, T + 1)], '>=', 1))
        for v in range(1, T + 1):
            cons.append(S.card([S.col('p', u, v) for u in range(1, M + 1)], '<=', 1))
            for u in range(1, M + 1):
                cons.append(S.IMP(S.col('p', u, v), S.col('r', v)))
            cons.append(S.IMP(S.col('r', v),
                              S.card([S.col('q', v, w) for w in range(1, N + 1)], '>=', 1)))
        for w in range(1, N + 1):
            cons.append(S.card([S.col('r', v) & S.col('q', v, w)
                                for v in range(1, T + 1)], '<=', 1))
        sat = M <= min(T, N)
    elif fam == 'count':
        M, p = a
        blocks = list(itertools.combinations(range(1, M + 1), p))
        nv = len(blocks)
        for x in range(1, M + 1):
            cons.append(S.card([S.col('p', *b) for b in blocks if x in b], '==', 1))
        sat = (M % p == 0)
        cnt = partitions_into_blocks(M, p)
    elif fam == 'matching':
        n, edges = a
        edges = [tuple(e) for e in edges]
        nv = len(edges)
        for x in range(1, n + 1):
            cons.append(S.card([S.col('e', u, v) for (u, v) in edges if x in (u, v)], '==', 1))
        cnt = perfect_matchings(n, edges)
        sat = cnt > 0
    elif fam == 'subsetcard':
        L, R, edges, equalities = a
        edges = [tuple(e) for e in edges]
        nv = len(edges)
        for u in range(1, L + 1):
            row = [S.col('x', u, v) for (a_, v) in edges if a_ == u]
            d = len(row)
            if equalities:
                cons.append(S.card(row, '==', (d + 1) // 2))
            else:   # at least half of the incident edges are one
                cons.append(tt.card_cols(S.n, [r for r in row] + [r for r in row], '>=', d))
        for v in range(1, R + 1):
            colv = [S.col('x', u, v) for (u, b_) in edges if b_ == v]
            d = len(colv)
            if equalities:
                cons.append(S.card(colv, '==', d // 2))
            else:   # at most half of the incident edges are one
                cons.append(tt.card_cols(S.n, colv + colv, '<=', d))
    elif fam == 'cliquecol':
        n, k, c = a
        nv = comb(n, 2) + k * n + n * c
        pairs = list(itertools.combinations(range(1, n + 1), 2))
        for i in range(1, k + 1):     # q: total function [k] -> [n]
            cons.append(S.card([S.col('q', i, v) for v in range(1, n + 1)], '==', 1))
        for v in range(1, n + 1):     # injective
            cons.append(S.card([S.col('q', i, v) for i in range(1, k + 1)], '<=', 1))
        for (u, v) in pairs:          # images of distinct i,j are adjacent
            for i in range(1, k + 1):
                for j in range(1, k + 1):
                    if i != j:
                        cons.append(S.IMP(S.col('q', i, u) & S.col('q', j, v), S.col('e', u, v)))
        for v in range(1, n + 1):     # r: total function [n] -> [c]
            cons.append(S.card([S.col('r', v, l) for l in range(1, c + 1)], '==', 1))
        for (u, v) in pairs:          # proper colouring
            for l in range(1, c + 1):
                cons.append(S.NOT(S.col('e', u, v) & S.col('r', u, l) & S.col('r', v, l)))
        sat = (k <= n) and (k <= c) and (n == 0 or c >= 1)
    else:
        raise KeyError(fam)
    return S.AND(cons), nv, sat, cnt


def _fact(n):
    r = 1
    for i in range(2, n + 1):
        r *= i
    return r


def _falling(h, p):
    r = 1
    for i in range(p):
        r *= (h - i)
    return max(r, 0)


def check_case(case, R=None):
    """Returns the list of violations for one instance."""
    fam = case['fam']
    out = []

    def bad(sym, what):
        out.append({'key': '%s:%s' % (fam, sym), 'what': what, 'case': dict(case)})

    try:
        F = build(case)
    except Exception as e:     # every case of the scope is inside the documented domain
        bad('exception:' + type(e).__name__, 'building the formula raised %r' % (e,))
        return out
    n = F.number_of_variables()
    names = list(F.all_variable_labels())
    if len(names) != n:
        bad('names', 'all_variable_labels gives %d names for %d variables' % (len(names), n))
        return out
    S = Sem(names)
    if S.bad_names:
        bad('names', 'unparsable or duplicate names %r' % (S.bad_names[:3],))
        return out
    try:
        exp, nv, sat, cnt = reference(case, S)
    except KeyError as e:
        bad('names', 'documented variable %r does not exist among %r' % (e.args, names[:6]))
        return out
    if n != nv:
        bad('nvars', 'formula declares %d variables, documented objects need %d' % (n, nv))
        return out
    try:
        got = tt.formula_models(F)
    except ValueError as e:
        bad('literal-range', str(e))
        return out
    if R is not None:
        R.nt = n > 0 and len(F) > 0
        R.stats['assignments'] += 1 << n
        R.stats['sat_instances' if got else 'unsat_instances'] += 1
    if got != exp:
        diff = got ^ exp
        a = next(tt.models(diff))
        side = 'accepted by the formula but not an object' if (got >> a) & 1 else \
            'an object but rejected by the formula'
        true_names = [names[v - 1] for v in tt.true_vars(a, n)]
        bad('model-set', 'models=%d expected=%d; assignment with true atoms %r is %s' %
            (tt.count(got), tt.count(exp), true_names, side))
    if sat is not None and bool(got) != bool(sat):
        bad('sat-closed-form', 'formula is %s but such an object %s' %
            ('SAT' if got else 'UNSAT', 'exists' if sat else 'does not exist'))
    if cnt is not None and tt.count(got) != cnt:
        bad('count', 'formula has %d models but there are %d objects' % (tt.count(got), cnt))
    return out


replay = check_case


# ---------------------------------------------------------------- shards --
def cases(tier, seed):
    thorough = tier == 'thorough'
    cs = []
    classes = ['CNF', 'OPB'] if thorough else ['CNF']
    pmax = 5 if thorough else 4
    vmax = 24 if thorough else 16
    for cls in classes:
        for P in range(pmax + 1):
            for H in range(pmax + 1):
                if P * H > vmax:
                    continue
                for f in (False, True):
                    for o in (False, True):
                        cs.append({'fam': 'php', 'args': [P, H, f, o], 'cls': cls})
        sizes = [(L, Rr) for L in range(4) for Rr in range(4)]
        if thorough:
            sizes += [(3, 4), (4, 3), (2, 5), (5, 2)]
        for (L, Rr) in sizes:
            for es in scope.bipartite_graphs(L, Rr):
                for f in (False, True):
                    for o in (False, True):
                        cs.append({'fam': 'gphp', 'args': [L, Rr, list(es), f, o], 'cls': cls})
                for eq in (False, True):
                    cs.append({'fam': 'subsetcard', 'args': [L, Rr, list(es), eq], 'cls': cls})
        for P in range(0, 5 if not thorough else 6):
            for H in range(0, 7 if not thorough else 10):
                bits = max(0, (H - 1).bit_length())
                if P * bits <= vmax:
                    cs.append({'fam': 'bphp', 'args': [P, H], 'cls': cls})
        tmax = 4 if thorough else 3
        for M in range(tmax + 1):
            for T in range(tmax + 1):
                for N in range(tmax + 1):
                    if M * T + T * N + T <= (26 if thorough else 18):
                        cs.append({'fam': 'rphp', 'args': [M, T, N], 'cls': cls})
        for M in range(0, 9 if thorough else 8):
            for p in range(1, M + 2):
                if comb(M, p) <= (22 if thorough else 21):
                    cs.append({'fam': 'count', 'args': [M, p], 'cls': cls})
        nmax = 6 if (thorough and cls == 'CNF') else 5
        for n in range(nmax + 1):
            for es in scope.simple_graphs(n):
                cs.append({'fam': 'matching', 'args': [n, list(es)], 'cls': cls})
        for n in range(0, 5):
            for k in range(0, 4):
                for c in range(0, 4):
                    if comb(n, 2) + k * n + n * c <= (24 if thorough else 18):
                        cs.append({'fam': 'cliquecol', 'args': [n, k, c], 'cls': cls})
    # VERIF_SEED rotates a few additional mid-size instances (never the core)
    extra = [(5, 4, False, False), (4, 5, True, False), (5, 5, False, True), (3, 7, True, True),
             (6, 3, False, False), (2, 9, True, False)]
    for i in range(2):
        P, H, f, o = extra[(seed + i) % len(extra)]
        if P * H <= 21:
            cs.append({'fam': 'php', 'args': [P, H, f, o], 'cls': 'CNF', 'extra': True})
    return cs


def shards(tier, seed):
    cs = cases(tier, seed)
    k = 64 if tier == 'thorough' else 32
    return [('s%03d' % i, 'run_cases', chunk) for i, chunk in enumerate(scope.stripe(cs, k))]


def run_cases(chunk, R):
    for case in chunk:
        R.nt = False
        vs = check_case(case, R)
        nontrivial = R.nt
        R.case(sample=case if R.evals % 97 == 0 else None, nontrivial=nontrivial)
        R.outcomes['family:' + case['fam']] += 1
        R.extend(vs)

ENGINE = 'tt+scope'
TECHNIQUE = ('bounded exhaustive model checking of the generator: every instance of a small '
             'scope x all 2^n assignments, compared with a reference predicate on named atoms')
LEVEL_TEXT = ('Every parameter tuple / graph of the stated scope is built by the real generator and '
              'its complete model set (all 2^n assignments, bit-parallel) is compared with the model '
              'set of the documented principle, plus closed-form satisfiability and object counts. '
              'Exhaustive inside the scope; nothing is sampled.')
LEVEL_NOTE = ('Trusted: the reference predicates of checks/c01 and engine/tt (cross-checked by its '
              'selftest against a per-assignment evaluator). Not covered: sizes beyond the scope.')
