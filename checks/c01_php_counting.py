"""C01  Pigeonhole, matching, counting, subset-cardinality and clique-colouring
families encode exactly their principle.

Every instance of a small scope (all parameter tuples of a box, all bipartite
/ simple graphs up to a size) is built with the real generator and evaluated
on ALL 2^n assignments (engine.tt).  The model bitmap must equal the bitmap of
a reference predicate stated on the *named* atoms (ref.sem), and independent
corollaries (closed-form satisfiability, object counts obtained by brute-force
enumeration of the combinatorial objects) must agree.
"""
import itertools
import os
from math import comb

from engine import tt, scope
from engine.common import setup_paths
from ref.sem import Sem

PROPERTY = 'C01'
SECOND_PASS = ('run_cases',)     # see engine/common._run_shard
LEVEL = 'exploration'
EXHAUSTIVE = True
RULE = ('every instance of the parameter boxes / every labelled (bipartite) '
        'graph up to the stated size, each evaluated on all 2^n assignments; '
        'an instance is non-trivial when it has at least one variable and one '
        'clause; instances are distinct by construction (enumerated once)')
ASSUMPTIONS = [
    'bounded scope: pigeons,holes<=4 (5 thorough), bipartite graphs <=3x3 '
    '(3x4,4x3 thorough), simple graphs <=5 (6) vertices, counting M<=7',
    'variable meaning is taken from the published names (all_variable_labels)',
    'reference predicates in checks/c01 are the documented meaning',
]
VACUITY = {'sat_instances': 20, 'unsat_instances': 20}


def preload():
    setup_paths()
    import cnfgen  # noqa


# --------------------------------------------------------------- helpers --
def perfect_matchings(n, edges):
    """Number of perfect matchings by direct recursion (independent)."""
    adj = scope.adjacency(n, edges)

    def rec(free):
        if not free:
            return 1
        u = min(free)
        tot = 0
        for v in adj[u]:
            if v in free and v != u:
                tot += rec(free - {u, v})
        return tot
    return rec(frozenset(range(1, n + 1)))


def partitions_into_blocks(M, p):
    """Number of partitions of [M] into blocks of size exactly p."""
    def rec(free):
        if not free:
            return 1
        u = min(free)
        rest = sorted(free - {u})
        tot = 0
        for others in itertools.combinations(rest, p - 1):
            tot += rec(free - {u} - set(others))
        return tot
    if p <= 0:
        return None
    return rec(frozenset(range(1, M + 1)))


def has_left_saturating_matching(L, R, edges):
    adj = {u: [v for (a, v) in edges if a == u] for u in range(1, L + 1)}

    def rec(u, used):
        if u > L:
            return True
        return any(rec(u + 1, used | {v}) for v in adj[u] if v not in used)
    return rec(1, frozenset())


def nx_bipartite(L, R, edges, order):
    """networkx input with the documented 'bipartite' node attribute.  The
    vertices of each side are inserted in index order (that order defines the
    numbering) but the two sides are interleaved according to `order`, and
    every edge is added with the hole/right endpoint first."""
    import networkx
    G = networkx.Graph()
    lefts = [('l', i) for i in range(1, L + 1)]
    rights = [('r', j) for j in range(1, R + 1)]
    if order == 'right-first':
        seq = rights + lefts
    elif order == 'interleaved':
        seq = []
        for k in range(max(L, R)):
            if k < R:
                seq.append(rights[k])
            if k < L:
                seq.append(lefts[k])
    else:
        seq = lefts + rights
    for (side, i) in seq:
        G.add_node('%s%d' % (side, i), bipartite=0 if side == 'l' else 1)
    for (u, v) in edges:
        G.add_edge('r%d' % v, 'l%d' % u)
    return G


def build_cli(case):
    """The same families through the command line (in-process call of the
    function the console script runs, formula object returned)."""
    import random
    import importlib
    import cnfgen.clitools.msg as msgmod
    tool = case.get('tool', 'cnfgen')
    mod = importlib.import_module('cnfgen.clitools.' + tool)
    if hasattr(msgmod, '_prefix'):
        msgmod._prefix = ''
    st = random.getstate()
    tmpd = None
    try:
        words = [str(x) for x in case['cli']]
        if case.get('files'):
            import tempfile
            tmpd = tempfile.mkdtemp(prefix='c01_')
            for name, text in case['files'].items():
                with open(os.path.join(tmpd, name), 'w') as f:
                    f.write(text)
            words = [w.replace('{D}', tmpd) for w in words]
        argv = [tool, '-q', '--seed', str(case.get('seed', 1))] + words
        return mod.cli(argv, mode='formula')
    finally:
        random.setstate(st)
        if tmpd is not None:
            import shutil
            shutil.rmtree(tmpd, ignore_errors=True)


def printed_models(case, n):
    """Models of the text `tool -of opb ...` prints (strict OPB reader of ref/c12_readers)."""
    import io
    import random
    import contextlib
    import importlib
    import cnfgen.clitools.msg as msgmod
    from ref import c12_readers as rd
    tool = case.get('tool', 'cnfgen')
    mod = importlib.import_module('cnfgen.clitools.' + tool)
    if hasattr(msgmod, '_prefix'):
        msgmod._prefix = ''
    st = random.getstate()
    buf = io.StringIO()
    try:
        argv = [tool, '-q', '--seed', str(case.get('seed', 1)), '-of', case['of']] + [str(x) for x in case['cli']]
        with contextlib.redirect_stdout(buf), contextlib.redirect_stderr(io.StringIO()):
            mod.cli(argv, mode='output')
    finally:
        random.setstate(st)
        if hasattr(msgmod, '_prefix'):
            msgmod._prefix = ''
    N, M, cons = rd.read_opb(buf.getvalue())
    if N != n:
        raise ValueError('the OPB text declares %d variables, the formula has %d' % (N, n))
    if M != len(cons):
        raise ValueError('the OPB text announces %d constraints and has %d' % (M, len(cons)))
    res = tt.columns(n)[0]
    for terms, rel, deg in cons:
        res &= tt.pb_models(n, [(c, l) for (c, l) in terms], '>=' if rel == '>=' else '==', deg)
    return res


def cli_reference_case(case, S):
    """The library-level case a command line denotes; graphs drawn at random
    by the command line are recovered from the published variable names and
    checked against what was asked for.  Returns (case, problem or None)."""
    r = case['ref']
    kind = r['kind']
    pre = S.prefixes()
    if kind == 'direct':
        return {'fam': r['fam'], 'args': r['args']}, None
    if kind == 'gphp':
        edges = sorted(pre.get('p', []))
        P, H = r['P'], r['H']
        if any(not (1 <= i <= P and 1 <= j <= H) for (i, j) in edges):
            return None, 'variables %r outside %d pigeons x %d holes' % (edges[:4], P, H)
        if r.get('deg') is not None:
            for i in range(1, P + 1):
                d = sum(1 for (u, _) in edges if u == i)
                if d != r['deg']:
                    return None, 'pigeon %d can fly to %d holes, %d requested' % (i, d, r['deg'])
        return {'fam': 'gphp', 'args': [P, H, [list(e) for e in edges], r['functional'], r['onto']]}, None
    if kind == 'matching':
        edges = sorted(pre.get('e', []))
        n = r['n']
        if any(not (1 <= u < v <= n) for (u, v) in edges):
            return None, 'edge variables %r outside a simple graph on %d vertices' % (edges[:4], n)
        if r.get('m') is not None and len(edges) != r['m']:
            return None, '%d edges, %d requested' % (len(edges), r['m'])
        return {'fam': 'matching', 'args': [n, [list(e) for e in edges]]}, None
    if kind == 'subsetcard':
        edges = sorted(pre.get('x', []))
        L, R_ = r['L'], r['R']
        if any(not (1 <= i <= L and 1 <= j <= R_) for (i, j) in edges):
            return None, 'variables %r outside a %dx%d bipartite graph' % (edges[:4], L, R_)
        if r.get('m') is not None and len(edges) != r['m']:
            return None, '%d edges, %d requested' % (len(edges), r['m'])
        return {'fam': 'subsetcard', 'args': [L, R_, [list(e) for e in edges], False]}, None
    raise KeyError(kind)


def build(case):
    if case.get('cli') is not None:
        return build_cli(case)
    import cnfgen
    from cnfgen.formula.cnf import CNF
    from cnfgen.formula.opb import OPB
    fc = {'CNF': CNF, 'OPB': OPB}[case.get('cls', 'CNF')]
    fam = case['fam']
    a = case['args']
    if fam == 'php':
        return cnfgen.PigeonholePrinciple(a[0], a[1], functional=a[2], onto=a[3], formula_class=fc)
    if fam == 'gphp':
        B = scope.mk_bipartite(a[0], a[1], a[2]) if not case.get('nx') else \
            nx_bipartite(a[0], a[1], a[2], case['nx'])
        return cnfgen.GraphPigeonholePrinciple(B, functional=a[3], onto=a[4], formula_class=fc)
    if fam == 'bphp':
        return cnfgen.BinaryPigeonholePrinciple(a[0], a[1], formula_class=fc)
    if fam == 'rphp':
        return cnfgen.RelativizedPigeonholePrinciple(a[0], a[1], a[2], formula_class=fc)
    if fam == 'count':
        return cnfgen.CountingPrinciple(a[0], a[1], formula_class=fc)
    if fam == 'matching':
        if case.get('nx') and case.get('nx') != 'digraph':
            import networkx
            G = networkx.Graph()
            for v in range(a[0], 0, -1):      # inserted in reverse order, labels 10*v
                G.add_node(10 * v)
            for (u, v) in a[1]:
                G.add_edge(10 * v, 10 * u)
        elif case.get('nx') == 'digraph':
            # the graph as a directed file (gml 'directed 1', dot 'digraph')
            # delivers it: every edge an arc, in alternating directions; the
            # simple graph it stands for has the same pairs
            import networkx
            G = networkx.DiGraph()
            G.add_nodes_from(range(1, a[0] + 1))
            for i, (u, v) in enumerate(a[1]):
                lo, hi = min(u, v), max(u, v)
                if i % 2 == 0:
                    G.add_edge(hi, lo)
                else:
                    G.add_edge(lo, hi)
        elif case.get('edited'):
            # a graph object that was edited: every edge removed and put back
            # with the endpoints named in the other order, both ways round
            G = scope.mk_graph(a[0], a[1])
            for i, (u, v) in enumerate(a[1]):
                lo, hi = min(u, v), max(u, v)
                if (i + case['edited']) % 2 == 0:
                    G.remove_edge(hi, lo)
                    G.add_edge(lo, hi)
                else:
                    G.remove_edge(lo, hi)
                    G.add_edge(hi, lo)
        elif case.get('grown') is not None:
            # a graph object with a history: created with `grown` vertices,
            # all the others added by ONE update_vertex_number call
            from cnfgen.graphs import Graph
            G = Graph(min(case['grown'], a[0]))
            G.update_vertex_number(a[0])
            for (u, v) in a[1]:
                G.add_edge(u, v)
        else:
            G = scope.mk_graph(a[0], a[1])
        return cnfgen.PerfectMatchingPrinciple(G, formula_class=fc)
    if fam == 'subsetcard':
        B = scope.mk_bipartite(a[0], a[1], a[2]) if not case.get('nx') else \
            nx_bipartite(a[0], a[1], a[2], case['nx'])
        return cnfgen.SubsetCardinalityFormula(B, equalities=a[3], formula_class=fc)
    if fam == 'cliquecol':
        return cnfgen.CliqueColoring(a[0], a[1], a[2], formula_class=fc)
    raise KeyError(fam)


def reference(case, S):
    """(expected_bitmap, expected_numvars, closed_form_sat or None,
    expected_model_count or None)"""
    fam = case['fam']
    a = case['args']
    cons = []
    sat = None
    cnt = None
    if fam in ('php', 'gphp'):
        if fam == 'php':
            P, H, functional, onto = a
            edges = [(i, j) for i in range(1, P + 1) for j in range(1, H + 1)]
        else:
            P, H, edges, functional, onto = a
            edges = [tuple(e) for e in edges]
        nv = len(edges)
        for i in range(1, P + 1):
            row = [S.col('p', i, j) for (u, j) in edges if u == i]
            cons.append(S.card(row, '==' if functional else '>=', 1))
        for j in range(1, H + 1):
            colj = [S.col('p', i, j) for (i, v) in edges if v == j]
            cons.append(S.card(colj, '==' if onto else '<=', 1))
        # closed forms: a system of distinct representatives for the pigeons;
        # with onto every hole is used exactly once
        if fam == 'php':
            if functional and onto:
                sat = (P == H)
                cnt = _fact(P) if sat else 0
            elif functional:
                sat = P <= H
                cnt = _falling(H, P)
            elif onto:
                sat = (P <= H) and (P >= 1 or H == 0)
                cnt = None
            else:
                sat = P <= H
        else:
            if not onto:
                sat = has_left_saturating_matching(P, H, edges)
    elif fam == 'bphp':
        P, H = a
        bits = 0
        while (1 << bits) < H:
            bits += 1
        nv = P * bits
        for i in range(1, P + 1):
            eq = []
            for j in range(H):
                x = S.mask
                for b in range(bits):
                    c = S.col('v', i, b)
                    x &= c if (j >> b) & 1 else S.NOT(c)
                eq.append(x)
            case.setdefault('_eq', {})[i] = eq
            cons.append(S.OR(eq) if H > 0 else 0)
        for j in range(H):
            cons.append(S.card([case['_eq'][i][j] for i in range(1, P + 1)], '<=', 1))
        case.pop('_eq', None)
        sat = P <= H
        cnt = _falling(H, P)
    elif fam == 'rphp':
        M, T, N = a
        nv = M * T + T * N + T
        for u in range(1, M + 1):
            cons.append(S.card([S.col('p', u, v) for v in range(1, T + 1)], '>=', 1))
        for v in range(1, T + 1):
            cons.append(S.card([S.col('p', u, v) for u in range(1, M + 1)], '<=', 1))
            for u in range(1, M + 1):
                cons.append(S.IMP(S.col('p', u, v), S.col('r', v)))
            cons.append(S.IMP(S.col('r', v),
                              S.card([S.col('q', v, w) for w in range(1, N + 1)], '>=', 1)))
        for w in range(1, N + 1):
            cons.append(S.card([S.col('r', v) & S.col('q', v, w)
                                for v in range(1, T + 1)], '<=', 1))
        sat = M <= min(T, N)
    elif fam == 'count':
        M, p = a
        blocks = list(itertools.combinations(range(1, M + 1), p))
        nv = len(blocks)
        for x in range(1, M + 1):
            cons.append(S.card([S.col('p', *b) for b in blocks if x in b], '==', 1))
        sat = (M % p == 0)
        cnt = partitions_into_blocks(M, p)
    elif fam == 'matching':
        n, edges = a
        edges = [tuple(e) for e in edges]
        nv = len(edges)
        for x in range(1, n + 1):
            cons.append(S.card([S.col('e', u, v) for (u, v) in edges if x in (u, v)], '==', 1))
        cnt = perfect_matchings(n, edges)
        sat = cnt > 0
    elif fam == 'subsetcard':
        L, R, edges, equalities = a
        edges = [tuple(e) for e in edges]
        nv = len(edges)
        for u in range(1, L + 1):
            row = [S.col('x', u, v) for (a_, v) in edges if a_ == u]
            d = len(row)
            if equalities:
                cons.append(S.card(row, '==', (d + 1) // 2))
            else:   # at least half of the incident edges are one
                cons.append(tt.card_cols(S.n, [r for r in row] + [r for r in row], '>=', d))
        for v in range(1, R + 1):
            colv = [S.col('x', u, v) for (u, b_) in edges if b_ == v]
            d = len(colv)
            if equalities:
                cons.append(S.card(colv, '==', d // 2))
            else:   # at most half of the incident edges are one
                cons.append(tt.card_cols(S.n, colv + colv, '<=', d))
    elif fam == 'cliquecol':
        n, k, c = a
        nv = comb(n, 2) + k * n + n * c
        pairs = list(itertools.combinations(range(1, n + 1), 2))
        for i in range(1, k + 1):     # q: total function [k] -> [n]
            cons.append(S.card([S.col('q', i, v) for v in range(1, n + 1)], '==', 1))
        for v in range(1, n + 1):     # injective
            cons.append(S.card([S.col('q', i, v) for i in range(1, k + 1)], '<=', 1))
        for (u, v) in pairs:          # images of distinct i,j are adjacent
            for i in range(1, k + 1):
                for j in range(1, k + 1):
                    if i != j:
                        cons.append(S.IMP(S.col('q', i, u) & S.col('q', j, v), S.col('e', u, v)))
        for v in range(1, n + 1):     # r: total function [n] -> [c]
            cons.append(S.card([S.col('r', v, l) for l in range(1, c + 1)], '==', 1))
        for (u, v) in pairs:          # proper colouring
            for l in range(1, c + 1):
                cons.append(S.NOT(S.col('e', u, v) & S.col('r', u, l) & S.col('r', v, l)))
        sat = (k <= n) and (k <= c) and (n == 0 or c >= 1)
    else:
        raise KeyError(fam)
    return S.AND(cons), nv, sat, cnt


# ------------------------------------------------- large instances: axioms --
def _amo(xs):
    return [((a, False), (b, False)) for a, b in itertools.combinations(xs, 2)]


def _geq(xs, k):
    """documented blasting of sum(xs) >= k into (n-k+1)-subsets"""
    n = len(xs)
    if k <= 0:
        return []
    if k > n:
        return [()]
    return [tuple((x, True) for x in sub) for sub in itertools.combinations(xs, n - k + 1)]


def _leq(xs, k):
    n = len(xs)
    if k >= n:
        return []
    if k < 0:
        return [()]
    return [tuple((x, False) for x in sub) for sub in itertools.combinations(xs, k + 1)]


def reference_axioms(case):
    """The documented axioms of an instance as a set of clauses over NAMED
    atoms ((prefix, index...), polarity); used where 2^n assignments are out of
    reach, so that index slips that only appear from 10 elements on, or for
    non-square shapes, are still seen."""
    fam = case['fam']
    a = case['args']
    cl = []
    if fam in ('php', 'gphp'):
        if fam == 'php':
            P, H, functional, onto = a
            edges = [(i, j) for i in range(1, P + 1) for j in range(1, H + 1)]
        else:
            P, H, edges, functional, onto = a
            edges = [tuple(e) for e in edges]
        for i in range(1, P + 1):
            row = [('p', i, j) for (u, j) in edges if u == i]
            cl += _geq(row, 1)
            if functional:
                cl += _amo(row)
        for j in range(1, H + 1):
            col = [('p', i, j) for (i, v) in edges if v == j]
            cl += _amo(col)
            if onto:
                cl += _geq(col, 1)
    elif fam == 'rphp':
        M, T, N = a
        for u in range(1, M + 1):
            cl += _geq([('p', u, v) for v in range(1, T + 1)], 1)
        for v in range(1, T + 1):
            cl += _amo([('p', u, v) for u in range(1, M + 1)])
            for u in range(1, M + 1):
                cl.append(((('p', u, v), False), (('r', v), True)))
            cl.append(tuple([(('r', v), False)] + [(('q', v, w), True) for w in range(1, N + 1)]))
        for w in range(1, N + 1):
            for v1, v2 in itertools.combinations(range(1, T + 1), 2):
                cl.append(((('r', v1), False), (('r', v2), False),
                           (('q', v1, w), False), (('q', v2, w), False)))
    elif fam == 'count':
        M, p = a
        blocks = list(itertools.combinations(range(1, M + 1), p))
        for x in range(1, M + 1):
            star = [('p',) + b for b in blocks if x in b]
            cl += _leq(star, 1) + _geq(star, 1)
    elif fam == 'matching':
        n, edges = a
        edges = [tuple(e) for e in edges]
        for x in range(1, n + 1):
            star = [('e', u, v) for (u, v) in edges if x in (u, v)]
            cl += _leq(star, 1) + _geq(star, 1)
    elif fam == 'subsetcard':
        L, Rr, edges, equalities = a
        edges = [tuple(e) for e in edges]
        for u in range(1, L + 1):
            row = [('x', u, v) for (a_, v) in edges if a_ == u]
            d = len(row)
            cl += _geq(row, (d + 1) // 2)
            if equalities:
                cl += _leq(row, (d + 1) // 2)
        for v in range(1, Rr + 1):
            col = [('x', u, v) for (u, b_) in edges if b_ == v]
            d = len(col)
            cl += _leq(col, d // 2)
            if equalities:
                cl += _geq(col, d // 2)
    elif fam == 'bphp':
        P, H = a
        bits = max(0, (H - 1).bit_length())

        def forbid(i, j):      # the clause false exactly when pigeon i encodes hole j
            return tuple((('v', i, b), not ((j >> b) & 1)) for b in range(bits))
        for i in range(1, P + 1):
            for j in range(H, 2 ** bits):
                cl.append(forbid(i, j))
        for j in range(H):
            for i1, i2 in itertools.combinations(range(1, P + 1), 2):
                cl.append(forbid(i1, j) + forbid(i2, j))
    else:
        return None
    return {frozenset((x, bool(pol)) for x, pol in c) for c in cl}


def check_axioms(case, R=None):
    """Clause set == documented axioms over named atoms (large instances)."""
    from ref.sem import parse_name
    fam = case['fam']
    out = []

    def bad(sym, what):
        out.append({'key': '%s:axioms:%s' % (fam, sym), 'what': what, 'case': dict(case)})
    try:
        F = build(case)
    except Exception as e:
        bad('exception:' + type(e).__name__, 'building the formula raised %r' % (e,))
        return out
    names = list(F.all_variable_labels())
    if len(names) != F.number_of_variables():
        bad('names', '%d names for %d variables' % (len(names), F.number_of_variables()))
        return out
    atom = {}
    for i, nm in enumerate(names, start=1):
        k = parse_name(nm)
        if k is None or (k[0],) + k[1] in atom.values():
            bad('names', 'unparsable or duplicate name %r' % (nm,))
            return out
        atom[i] = (k[0],) + k[1]
    got = set()
    try:
        for c in F.clauses():
            got.add(frozenset((atom[abs(l)], l > 0) for l in c))
    except KeyError as e:
        bad('literal-range', 'literal outside the declared variables: %r' % (e.args,))
        return out
    exp = reference_axioms(case)
    if R is not None:
        R.nt = len(got) > 0
        R.stats['axiom_instances'] += 1
        R.stats['axiom_clauses_compared'] += len(exp)
    # tautologies produced by the generator are harmless: ignore them on both sides
    def taut(c):
        return any((x, not p) in c for (x, p) in c)
    got_n = {c for c in got if not taut(c)}
    exp_n = {c for c in exp if not taut(c)}
    if got_n != exp_n:
        missing = sorted(map(sorted, exp_n - got_n))[:2]
        extra = sorted(map(sorted, got_n - exp_n))[:2]
        bad('clause-set', '%d documented axioms missing (e.g. %r), %d extra clauses (e.g. %r)' %
            (len(exp_n - got_n), missing, len(got_n - exp_n), extra))
    return out


def _fact(n):
    r = 1
    for i in range(2, n + 1):
        r *= i
    return r


def _falling(h, p):
    r = 1
    for i in range(p):
        r *= (h - i)
    return max(r, 0)


def check_case(case, R=None):
    """Returns the list of violations for one instance."""
    fam = case['fam']
    out = []

    def bad(sym, what):
        out.append({'key': '%s%s:%s' % ('cli:' if case.get('cli') is not None else '', fam, sym),
                    'what': what, 'case': dict(case)})

    try:
        F = build(case)
    except Exception as e:     # every case of the scope is inside the documented domain
        bad('exception:' + type(e).__name__, 'building the formula raised %r' % (e,))
        return out
    n = F.number_of_variables()
    names = list(F.all_variable_labels())
    if len(names) != n:
        bad('names', 'all_variable_labels gives %d names for %d variables' % (len(names), n))
        return out
    S = Sem(names)
    if S.bad_names:
        bad('names', 'unparsable or duplicate names %r' % (S.bad_names[:3],))
        return out
    refcase = case
    if case.get('cli') is not None:
        refcase, problem = cli_reference_case(case, S)
        if problem:
            bad('graph', 'command line %r: %s' % (case['cli'], problem))
            return out
        if R is not None:
            R.stats['command_lines'] += 1
    try:
        exp, nv, sat, cnt = reference(refcase, S)
    except KeyError as e:
        bad('names', 'documented variable %r does not exist among %r' % (e.args, names[:6]))
        return out
    if n != nv:
        bad('nvars', 'formula declares %d variables, documented objects need %d' % (n, nv))
        return out
    try:
        got = tt.formula_models(F)
    except ValueError as e:
        bad('literal-range', str(e))
        return out
    if case.get('of'):
        # the formula as the tool PRINTS it in another output format: read by
        # the strict reference reader, it must have the same models
        try:
            got = printed_models(case, n)
        except Exception as e:
            bad('printed-%s:unreadable' % case['of'], '%s: %s' % (type(e).__name__, str(e)[:200]))
            return out
        if R is not None:
            R.stats['printed_renderings_compared'] += 1
    if R is not None:
        R.nt = n > 0 and len(F) > 0
        R.stats['assignments'] += 1 << n
        R.stats['sat_instances' if got else 'unsat_instances'] += 1
    if got != exp:
        diff = got ^ exp
        a = next(tt.models(diff))
        side = 'accepted by the formula but not an object' if (got >> a) & 1 else \
            'an object but rejected by the formula'
        true_names = [names[v - 1] for v in tt.true_vars(a, n)]
        bad('model-set', 'models=%d expected=%d; assignment with true atoms %r is %s' %
            (tt.count(got), tt.count(exp), true_names, side))
    if sat is not None and bool(got) != bool(sat):
        bad('sat-closed-form', 'formula is %s but such an object %s' %
            ('SAT' if got else 'UNSAT', 'exists' if sat else 'does not exist'))
    if cnt is not None and tt.count(got) != cnt:
        bad('count', 'formula has %d models but there are %d objects' % (tt.count(got), cnt))
    return out


def replay(case):
    if case.get('oracle') == 'axioms':
        return check_axioms(case)
    return check_case(case)


# ---------------------------------------------------------------- shards --
def cases(tier, seed):
    thorough = tier == 'thorough'
    cs = []
    classes = ['CNF', 'OPB'] if thorough else ['CNF']
    pmax = 5 if thorough else 4
    vmax = 24 if thorough else 16
    if not thorough:
        # the pseudo-Boolean class on a smaller box (the full box in thorough)
        for (L, Rr) in [(L, Rr) for L in range(4) for Rr in range(4) if L + Rr <= 4]:
            for es in scope.bipartite_graphs(L, Rr):
                for f in (False, True):
                    for o in (False, True):
                        cs.append({'fam': 'gphp', 'args': [L, Rr, list(es), f, o], 'cls': 'OPB'})
                for eq in (False, True):
                    cs.append({'fam': 'subsetcard', 'args': [L, Rr, list(es), eq], 'cls': 'OPB'})
        for P in range(4):
            for H in range(4):
                for f in (False, True):
                    for o in (False, True):
                        cs.append({'fam': 'php', 'args': [P, H, f, o], 'cls': 'OPB'})
                cs.append({'fam': 'bphp', 'args': [P, H], 'cls': 'OPB'})
        for M in range(0, 6):
            for p_ in range(1, M + 2):
                cs.append({'fam': 'count', 'args': [M, p_], 'cls': 'OPB'})
        for n in range(5):
            for es in scope.simple_graphs(n):
                cs.append({'fam': 'matching', 'args': [n, list(es)], 'cls': 'OPB'})
        for (M, T, N) in [(m_, t_, n_) for m_ in range(3) for t_ in range(3) for n_ in range(3)]:
            cs.append({'fam': 'rphp', 'args': [M, T, N], 'cls': 'OPB'})
        for (n, k, c) in [(2, 1, 1), (2, 2, 1), (3, 2, 2), (3, 1, 2), (2, 2, 2), (1, 1, 1), (0, 0, 0)]:
            cs.append({'fam': 'cliquecol', 'args': [n, k, c], 'cls': 'OPB'})
    for cls in classes:
        for P in range(pmax + 1):
            for H in range(pmax + 1):
                if P * H > vmax:
                    continue
                for f in (False, True):
                    for o in (False, True):
                        cs.append({'fam': 'php', 'args': [P, H, f, o], 'cls': cls})
        sizes = [(L, Rr) for L in range(4) for Rr in range(4)]
        if thorough:
            sizes += [(3, 4), (4, 3), (2, 5), (5, 2)]
        for (L, Rr) in sizes:
            for es in scope.bipartite_graphs(L, Rr):
                for f in (False, True):
                    for o in (False, True):
                        cs.append({'fam': 'gphp', 'args': [L, Rr, list(es), f, o], 'cls': cls})
                for eq in (False, True):
                    cs.append({'fam': 'subsetcard', 'args': [L, Rr, list(es), eq], 'cls': cls})
                if cls == 'CNF' and L <= 3 and Rr <= 3:
                    # networkx input (documented as accepted), sides interleaved
                    for order in ('right-first', 'interleaved'):
                        cs.append({'fam': 'gphp', 'args': [L, Rr, list(es), len(es) % 2 == 0, len(es) % 3 == 0],
                                   'cls': cls, 'nx': order})
                        cs.append({'fam': 'subsetcard', 'args': [L, Rr, list(es), len(es) % 2 == 1],
                                   'cls': cls, 'nx': order})
        for P in range(0, 5 if not thorough else 6):
            for H in range(0, 7 if not thorough else 10):
                bits = max(0, (H - 1).bit_length())
                if P * bits <= vmax:
                    cs.append({'fam': 'bphp', 'args': [P, H], 'cls': cls})
        tmax = 4 if thorough else 3
        for M in range(tmax + 1):
            for T in range(tmax + 1):
                for N in range(tmax + 1):
                    if M * T + T * N + T <= (26 if thorough else 18):
                        cs.append({'fam': 'rphp', 'args': [M, T, N], 'cls': cls})
        for M in range(0, 9 if thorough else 8):
            for p in range(1, M + 2):
                if comb(M, p) <= (22 if thorough else 21):
                    cs.append({'fam': 'count', 'args': [M, p], 'cls': cls})
        nmax = 6 if (thorough and cls == 'CNF') else 5
        for n in range(nmax + 1):
            for es in scope.simple_graphs(n):
                cs.append({'fam': 'matching', 'args': [n, list(es)], 'cls': cls})
                if n <= 4 and cls == 'CNF':
                    cs.append({'fam': 'matching', 'args': [n, list(es)], 'cls': cls, 'nx': 'reverse'})
                if n >= 2 and cls == 'CNF':
                    cs.append({'fam': 'matching', 'args': [n, list(es)], 'cls': cls, 'grown': len(es) % 2})
                if 2 <= n <= 4 and es and cls == 'CNF':
                    cs.append({'fam': 'matching', 'args': [n, list(es)], 'cls': cls, 'edited': 1 + len(es) % 2})
                    cs.append({'fam': 'matching', 'args': [n, list(es)], 'cls': cls, 'nx': 'digraph'})
        for n in range(0, 5):
            for k in range(0, 4):
                for c in range(0, 4):
                    if comb(n, 2) + k * n + n * c <= (24 if thorough else 18):
                        cs.append({'fam': 'cliquecol', 'args': [n, k, c], 'cls': cls})
    # VERIF_SEED rotates a few additional mid-size instances (never the core)
    extra = [(5, 4, False, False), (4, 5, True, False), (5, 5, False, True), (3, 7, True, True),
             (6, 3, False, False), (2, 9, True, False)]
    for i in range(2):
        P, H, f, o = extra[(seed + i) % len(extra)]
        if P * H <= 21:
            cs.append({'fam': 'php', 'args': [P, H, f, o], 'cls': 'CNF', 'extra': True})
    return cs


def cli_cases(tier, seed):
    """Every form of the command lines of these families x flag subsets x
    seeds (random graph arguments): the formula built must be the family on
    the parameters/graph the command line denotes."""
    thorough = tier == 'thorough'
    cs = []
    seeds = (1, 2, 3) if thorough else (1, 2)
    tools = ('cnfgen', 'pbgen')
    flagsets = [[], ['--functional'], ['--onto'], ['--functional', '--onto']]

    def add(fam, argv, ref, rnd=False, tools_=tools, files=None, of=None):
        for tool in tools_:
            for sd in (seeds if rnd else (1,)):
                c = {'fam': fam, 'cli': argv, 'tool': tool, 'seed': sd, 'ref': ref}
                if files:
                    c['files'] = files
                if of:
                    c['of'] = of
                cs.append(c)
    for fl in flagsets:
        f, o = '--functional' in fl, '--onto' in fl
        for N in range(0, 4):
            add('php', ['php', N] + fl, {'kind': 'direct', 'fam': 'php', 'args': [N + 1, N, f, o]})
            add('php', ['php', N] + fl, {'kind': 'direct', 'fam': 'php', 'args': [N + 1, N, f, o]}, of='opb')
        for M in range(0, 4):
            for N in range(0, 5):
                if M * N <= 12:
                    add('php', ['php', M, N] + fl,
                        {'kind': 'direct', 'fam': 'php', 'args': [M, N, f, o]})
                for D in range(0, N + 1):
                    if M * D <= 12 and M >= 1:
                        add('php', ['php', M, N, D] + fl,
                            {'kind': 'gphp', 'P': M, 'H': N, 'deg': D, 'functional': f, 'onto': o},
                            rnd=0 < D < N)
        for spec, (L, Rr, deg) in ((['glrd', 3, 4, 2], (3, 4, 2)), (['complete', 2, 3], (2, 3, 3)),
                                   (['regular', 4, 4, 2], (4, 4, 2)), (['glrp', 3, 3, '.5'], (3, 3, None)),
                                   (['glrm', 3, 4, 5], (3, 4, None)), (['shift', 3, 4, 1, 2], (3, 4, 2)),
                                   (['empty', 2, 2], (2, 2, 0))):
            add('php', ['php'] + spec + fl,
                {'kind': 'gphp', 'P': L, 'H': Rr, 'deg': deg, 'functional': f, 'onto': o},
                rnd=spec[0] in ('glrd', 'regular', 'glrp', 'glrm'))
    # bipartite graphs read from files (isolated vertices on both sides included)
    for (L, Rr) in ((1, 1), (2, 1), (1, 2), (2, 2), (3, 2), (2, 3)):
        for es in scope.bipartite_graphs(L, Rr):
            es = [tuple(e) for e in es]
            if (L, Rr) in ((3, 2), (2, 3)) and len(es) not in (0, 1, 2, L * Rr):
                continue
            kth = '%d\n' % (L + Rr) + ''.join(
                '%d : %s0\n' % (u, ''.join('%d ' % (L + v) for (a, v) in es if a == u))
                for u in range(1, L + 1))
            mat = '%d %d\n' % (L, Rr) + ''.join(
                ' '.join('1' if (u, v) in es else '0' for v in range(1, Rr + 1)) + '\n'
                for u in range(1, L + 1))
            for fmt, text in (('kthlist', kth), ('matrix', mat)):
                fl = flagsets[(len(es) + L) % 4]
                add('php', ['php', fmt, '{D}/g.txt'] + fl,
                    {'kind': 'gphp', 'P': L, 'H': Rr, 'deg': None, 'functional': '--functional' in fl,
                     'onto': '--onto' in fl}, files={'g.txt': text})
                add('subsetcard', ['subsetcard', '{D}/g.' + fmt],
                    {'kind': 'subsetcard', 'L': L, 'R': Rr, 'm': len(es)}, files={'g.' + fmt: text})
    for M in range(1, 4):        # the command line wants positive numbers here
        for N in range(1, 6):
            if M * max(0, (N - 1).bit_length()) <= 12:
                add('bphp', ['bphp', M, N], {'kind': 'direct', 'fam': 'bphp', 'args': [M, N]})
    for P in range(0, 3):
        for T in range(0, 3):
            for H in range(0, 3):
                add('rphp', ['rphp', P, T, H], {'kind': 'direct', 'fam': 'rphp', 'args': [P, T, H]})
    for (M, N) in ((1, 0), (2, 0), (2, 1), (0, 0), (0, 2), (3, 2)):
        add('php', ['php', M, N], {'kind': 'direct', 'fam': 'php', 'args': [M, N, False, False]}, of='opb')
    for (M, p_) in ((1, 2), (2, 3), (0, 1), (3, 2), (4, 2)):
        add('count', ['count', M, p_], {'kind': 'direct', 'fam': 'count', 'args': [M, p_]}, of='opb')
    add('bphp', ['bphp', 2, 1], {'kind': 'direct', 'fam': 'bphp', 'args': [2, 1]}, of='opb')
    add('matching', ['matching', 'empty', 3], {'kind': 'matching', 'n': 3, 'm': 0}, of='opb')
    for N in range(0, 7):
        add('count', ['parity', N], {'kind': 'direct', 'fam': 'count', 'args': [N, 2]})
    for M in range(0, 7):
        for p_ in range(1, M + 2):
            if comb(M, p_) <= 16:
                add('count', ['count', M, p_], {'kind': 'direct', 'fam': 'count', 'args': [M, p_]})
    for spec, n, m, rnd in ((['complete', 4], 4, 6, False), (['gnp', 5, '.5'], 5, None, True),
                            (['gnm', 5, 6], 5, 6, True), (['grid', 2, 3], 6, 7, False),
                            (['empty', 3], 3, 0, False), (['gnd', 6, 3], 6, 9, True),
                            (['empty', 1], 1, 0, False)):
        add('matching', ['matching'] + spec, {'kind': 'matching', 'n': n, 'm': m}, rnd=rnd)
    for spec, L, Rr, m, rnd in ((['glrd', 3, 3, 2], 3, 3, 6, True), (['complete', 2, 3], 2, 3, 6, False),
                                (['regular', 4, 4, 2], 4, 4, 8, True), ([4, 2], 4, 4, 9, True),
                                ([5], 5, 5, 21, True), (['glrm', 3, 4, 7], 3, 4, 7, True)):
        add('subsetcard', ['subsetcard'] + spec, {'kind': 'subsetcard', 'L': L, 'R': Rr, 'm': m},
            rnd=rnd)
    for n in range(1, 4):
        for k in range(1, 3):
            for c in range(1, 3):
                if comb(n, 2) + k * n + n * c <= 14:
                    add('cliquecol', ['cliquecoloring', n, k, c],
                        {'kind': 'direct', 'fam': 'cliquecol', 'args': [n, k, c]})
    return cs


def large_cases(tier, seed):
    """Instances beyond the reach of truth tables, checked clause set vs
    documented axioms: sizes with two-digit indices, non-square shapes,
    non-powers of two, irregular graphs."""
    thorough = tier == 'thorough'
    cs = []

    def add(fam, *args):
        # CNF only: the pseudo-Boolean class keeps native cardinality constraints
        cs.append({'fam': fam, 'args': list(args), 'cls': 'CNF', 'oracle': 'axioms'})
    sizes = [(11, 10), (10, 11), (12, 3), (3, 12), (13, 13), (16, 9), (9, 17), (1, 12), (12, 1)]
    if thorough:
        sizes += [(20, 19), (17, 23), (32, 5), (5, 33), (25, 25)]
    for (P, H) in sizes:
        for f in (False, True):
            for o in (False, True):
                add('php', P, H, f, o)
        add('bphp', P, H)
    for (P, H) in [(3, 5), (4, 7), (5, 9), (6, 12), (7, 16), (5, 17), (3, 31), (3, 33)]:
        add('bphp', P, H)
    # bipartite graphs with two-digit vertices, irregular degrees, isolated vertices
    def bip(L, Rr, rule):
        return [(u, v) for u in range(1, L + 1) for v in range(1, Rr + 1) if rule(u, v)]
    graphs = [(11, 12, bip(11, 12, lambda u, v: (u + v) % 3 == 0 or v == u)),
              (12, 10, bip(12, 10, lambda u, v: (u * v) % 4 == 1 or (u == 12 and v >= 9))),
              (10, 13, bip(10, 13, lambda u, v: abs(u - v) <= 1 and u != 5)),
              (13, 11, bip(13, 11, lambda u, v: v in (1 + (u % 11), 1 + ((u + 3) % 11), 11)))]
    if thorough:
        graphs.append((16, 17, bip(16, 17, lambda u, v: (u + 2 * v) % 5 == 0 or u == v)))
    for (L, Rr, es) in graphs:
        for f in (False, True):
            for o in (False, True):
                add('gphp', L, Rr, es, f, o)
        for eq in (False, True):
            add('subsetcard', L, Rr, es, eq)
    for (M, T, N) in [(10, 11, 12), (11, 10, 3), (3, 12, 10), (12, 3, 11)] + \
            ([(13, 14, 15)] if thorough else []):
        add('rphp', M, T, N)
    for (M, p) in [(10, 2), (11, 2), (10, 3), (12, 4), (11, 10), (13, 3)]:
        if comb(M, p) <= 600:
            add('count', M, p)
    # simple graphs on 10..13 vertices: cycle + chords, an isolated vertex, a pendant vertex
    for n in (10, 11, 12, 13):
        es = sorted({(min(i, i % n + 1), max(i, i % n + 1)) for i in range(1, n)} |
                    {(1, n // 2 + 1), (2, n - 1), (3, 10)})
        es = [e for e in es if e[0] != e[1] and n - 0 not in () ]
        add('matching', n, es)
        add('matching', n + 1, es)        # last vertex isolated
    return cs


def shards(tier, seed):
    cs = cases(tier, seed)
    k = 64 if tier == 'thorough' else 32
    out = [('s%03d' % i, 'run_cases', chunk) for i, chunk in enumerate(scope.stripe(cs, k))]
    for i, chunk in enumerate(scope.stripe(large_cases(tier, seed), 8)):
        out.append(('x%03d' % i, 'run_axioms', chunk))
    for i, chunk in enumerate(scope.stripe(cli_cases(tier, seed), 16)):
        out.append(('c%03d' % i, 'run_cases', chunk))
    return out


def run_axioms(chunk, R):
    for case in chunk:
        R.nt = False
        vs = check_axioms(case, R)
        R.case(sample={k: (v if k != 'args' else str(v)[:80]) for k, v in case.items()}
               if R.evals % 9 == 0 else None, nontrivial=R.nt)
        R.outcomes['axioms:' + case['fam']] += 1
        R.extend(vs)


def run_cases(chunk, R):
    for case in chunk:
        R.nt = False
        vs = check_case(case, R)
        nontrivial = R.nt
        R.case(sample=case if R.evals % 97 == 0 else None, nontrivial=nontrivial)
        R.outcomes['family:' + case['fam']] += 1
        R.extend(vs)

ENGINE = 'tt+scope'
TECHNIQUE = ('bounded exhaustive model checking of the generator: every instance of a small '
             'scope x all 2^n assignments, compared with a reference predicate on named atoms')
LEVEL_TEXT = ('Every parameter tuple / graph of the stated scope is built by the real generator and '
              'its complete model set (all 2^n assignments, bit-parallel) is compared with the model '
              'set of the documented principle, plus closed-form satisfiability and object counts. '
              'Exhaustive inside the scope; nothing is sampled.')
LEVEL_NOTE = ('Trusted: the reference predicates of checks/c01 and engine/tt (cross-checked by its '
              'selftest against a per-assignment evaluator). Not covered: sizes beyond the scope.')
