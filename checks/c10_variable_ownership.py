"""C10  Every formula mentions only variables it owns, and allocates them
freshly.

Part A (exhaustive input box at realistic sizes): every family exported by
cnfgen/__init__.py x a hand-written box of realistic parameters x both formula
classes (CNF, OPB) x transformation chains of depth <= 2 (CNF) x the command
line tools in-process.  Oracle: every literal is a non-zero int (not bool)
with 1 <= |l| <= number_of_variables(); OPB coefficients are positive ints;
the declared number equals the documented count (table DOC below, written from
the docstrings); one label per variable; debug() is True.

Part B (explicit-state BFS, engine/bfs.py): all histories of variable-group
creation and clause insertion up to a depth on real CNF / OPB objects, against
a three-number reference model (declared count, largest id mentioned, list of
groups).

FRESHNESS MONITOR (both parts): CNF and OPB are subclassed outside the
repository; the subclass looks at the clauses inserted so far every time
`_add_variable_group` is called and reports a group that hands out an id
already mentioned / already declared / not contiguous from declared+1.  The
families get the subclass through `formula_class`, the transformations and the
command line tools through a temporary rebinding of their module-level names.
"""
import copy
import importlib
import itertools
import json
import os
import random
import tempfile
from collections import Counter
from contextlib import contextmanager
from math import comb

from engine import scope, bfs
from engine.common import setup_paths

PROPERTY = 'C10'
LEVEL = 'model_checking'
EXHAUSTIVE = True
ENGINE = 'bfs+scope'
RULE = ('Part A: one case = one (family, parameter tuple of the hand-written box, formula class, '
        'transformation chain) or one command line, each listed once; non-trivial = at least one '
        'variable and one clause/constraint.  Part B: one case = one distinct reachable state of the '
        'BFS (key = class, declared count, complete clause list, list of groups with their id '
        'ranges and the operation that made them); histories are distinct by construction.')
ASSUMPTIONS = [
    'Part A is a box, not a proof: sizes as listed in cases() (php up to 12x10, graphs of 6-14 '
    'vertices, chains of depth <= 2 on small members)',
    'Part B: depth <= 4 with the full alphabet (20 operations), <= 5 with the core alphabet (10) '
    'and <= 3 with the extended alphabet (32) in the quick tier; 5 / 6 / 4 in the thorough tier',
    'documented counts are the table DOC of this module, written from the docstrings; for Pitfall '
    '(no count in the docstring) the count is k copies of the variable groups named in the '
    'docstring/paper; RamseyWitness is counted only for k == s',
    'a clause inserted with check=False that mentions an id above the declared count and is not '
    'followed by update_variable_number is caller misuse (check=False "trusts the caller"); such '
    'histories are only used as negative controls of the monitor, not as violations',
    'trusted: engine/bfs.py, the monitor subclass (validated in every run by negative controls)',
]
TECHNIQUE = ('explicit-state BFS over all interleavings of variable-group creation and clause '
             'insertion on the real CNF/OPB objects + exhaustive walk of a realistic parameter box of '
             'every exported family / transformation chain / command line, all under a freshness '
             'monitor subclass')
LEVEL_TEXT = ('Model checking of the variable manager: every history of the alphabet up to the stated '
              'depth is executed on real objects and compared with a reference model after every step; '
              'the same monitor observes every family of the box while it builds realistic instances.')
LEVEL_NOTE = ('Complete below the depth / inside the box only.  Freshness is observed by a subclass '
              'living in /verif, not by code inside the repository.')


def VACUITY(tier):
    return {
        'monitor_groups_checked': 20000,            # groups seen by the monitor in Part A
        'bfs_group_after_clause_transitions': 100000,
        'bfs_copier_crosschecked_states': 1000,
        'control_monitor_detected': 32,             # every group kind x both classes
        'control_monitor_silent_on_legal': 32,
        'control_oracle_detected': 9,
        'families_exported': 31,
        'transformations_exported': 15,
        'cli:cnfgen': 300, 'cli:pbgen': 80,
        'chain:depth1': 200, 'chain:depth2': 1500,
        'family:php:OPB': 20, 'family:cpls:CNF': 5, 'family:kcliquebin:CNF': 50,
        'family:sparsestone:OPB': 20, 'family:pitfall:CNF': 4,
        'bfs:CNF:full': 100000, 'bfs:OPB:full': 100000, 'bfs:CNF:core': 50000, 'bfs:OPB:core': 50000,
        'bfs:CNF:ext': 20000, 'bfs:OPB:ext': 20000,
    }


def coverage_extra(tier, stats, outcomes):
    return {
        'documented_counts_table': sorted('%s=%s' % (k, v[0]) for k, v in DOC.items()),
        'transformations_table': sorted('%s=%s' % (k, v[0]) for k, v in TDOC.items()),
        'bfs_alphabets': {k: len(v) for k, v in ALPHABETS.items()},
        'bfs_jobs(alphabet,depth,prefix)': [list(j) for j in _bfs_jobs(tier)],
        'fixpoint': False,
        'fixpoint_note': 'the state space is infinite (the declared count only grows); the search is '
                         'complete up to the stated depth',
    }


def preload():
    setup_paths()
    import cnfgen  # noqa
    import cnfgen.clitools.cnfgen  # noqa
    import cnfgen.clitools.pbgen  # noqa
    import networkx  # noqa


# ===================================================================== graphs
# Own reference description of every graph used: (n, sorted edge list).
def gspec(spec):
    k = spec[0]
    if k == 'complete':
        n = spec[1]
        return n, scope.all_pairs(n)
    if k == 'empty':
        return spec[1], []
    if k == 'path':
        n = spec[1]
        return n, [(i, i + 1) for i in range(1, n)]
    if k == 'cycle':
        n = spec[1]
        return n, sorted([(i, i + 1) for i in range(1, n)] + [(1, n)])
    if k == 'star':
        n = spec[1]
        return n, [(1, i) for i in range(2, n + 1)]
    if k == 'wheel':
        n = spec[1]
        rim = [(i, i + 1) for i in range(2, n)] + [(2, n)]
        return n, sorted(set([(1, i) for i in range(2, n + 1)] + rim))
    if k == 'grid':
        a, b = spec[1], spec[2]
        E = []
        for i in range(a):
            for j in range(b):
                v = i * b + j + 1
                if j + 1 < b:
                    E.append((v, v + 1))
                if i + 1 < a:
                    E.append((v, v + b))
        return a * b, sorted(E)
    if k == 'circulant':
        n, offs = spec[1], spec[2]
        E = set()
        for u in range(n):
            for d in offs:
                v = (u + d) % n
                if u != v:
                    E.add((min(u, v) + 1, max(u, v) + 1))
        return n, sorted(E)
    if k == 'petersen':
        E = [(i, i % 5 + 1) for i in range(1, 6)]
        E += [(i, i + 5) for i in range(1, 6)]
        E += [(6 + i, 6 + (i + 2) % 5) for i in range(5)]
        return 10, sorted((min(u, v), max(u, v)) for u, v in E)
    if k == 'union':
        n1, E1 = gspec(spec[1])
        n2, E2 = gspec(spec[2])
        return n1 + n2, E1 + [(u + n1, v + n1) for u, v in E2]
    if k == 'pad':                       # isolated vertices at the end
        n, E = gspec(spec[1])
        return n + spec[2], E
    if k == 'padfront':                  # isolated vertices first
        n, E = gspec(spec[1])
        d = spec[2]
        return n + d, [(u + d, v + d) for u, v in E]
    if k == 'edges':
        return spec[1], sorted(tuple(e) for e in spec[2])
    raise KeyError(spec)


# When _SHARED is a dict, equal graph specifications yield THE SAME graph
# object (families called one after the other on one graph object).
_SHARED = None


def mk_g(spec):
    if _SHARED is not None:
        key = 'mk_g:' + json.dumps(spec)
        if key not in _SHARED:
            _SHARED[key] = _mk_g_fresh(spec)
        return _SHARED[key]
    return _mk_g_fresh(spec)


def _mk_g_fresh(spec):
    if spec[0] == 'nx':                  # hand the family a networkx graph
        import networkx
        n, E = gspec(spec[1])
        G = networkx.Graph()
        G.add_nodes_from(range(1, n + 1))
        G.add_edges_from(E)
        return G
    n, E = gspec(spec)
    return scope.mk_graph(n, E)


def g_nE(spec):
    if spec[0] == 'nx':
        spec = spec[1]
    n, E = gspec(spec)
    return n, len(E)


def bspec(spec):
    """(L, R, edge list) of a bipartite graph spec"""
    k = spec[0]
    if k == 'bcomplete':
        L, R = spec[1], spec[2]
        return L, R, [(u, v) for u in range(1, L + 1) for v in range(1, R + 1)]
    if k == 'bempty':
        return spec[1], spec[2], []
    if k == 'bshift':
        L, R, offs = spec[1], spec[2], spec[3]
        E = set()
        for u in range(1, L + 1):
            for d in offs:
                E.add((u, 1 + (u - 1 + d) % R))
        return L, R, sorted(E)
    if k == 'bedges':
        return spec[1], spec[2], sorted(tuple(e) for e in spec[3])
    if k == 'bpad':                      # isolated vertices on both sides
        L, R, E = bspec(spec[1])
        return L + spec[2], R + spec[3], E
    raise KeyError(spec)


def mk_b(spec):
    if _SHARED is not None:
        key = 'mk_b:' + json.dumps(spec)
        if key not in _SHARED:
            _SHARED[key] = _mk_b_fresh(spec)
        return _SHARED[key]
    return _mk_b_fresh(spec)


def _mk_b_fresh(spec):
    L, R, E = bspec(spec)
    return scope.mk_bipartite(L, R, E)


def dspec_n(spec):
    k = spec[0]
    if k == 'pyramid':
        h = spec[1]
        return (h + 1) * (h + 2) // 2
    if k == 'tree':
        return 2 ** (spec[1] + 1) - 1
    if k == 'dpath':
        return spec[1] + 1
    if k == 'dag':
        return spec[1]
    raise KeyError(spec)


def mk_d(spec):
    if _SHARED is not None:
        key = 'mk_d:' + json.dumps(spec)
        if key not in _SHARED:
            _SHARED[key] = _mk_d_fresh(spec)
        return _SHARED[key]
    return _mk_d_fresh(spec)


def _mk_d_fresh(spec):
    from cnfgen import graphs
    k = spec[0]
    if k == 'pyramid':
        return graphs.dag_pyramid(spec[1])
    if k == 'tree':
        return graphs.dag_complete_binary_tree(spec[1])
    if k == 'dpath':
        return graphs.dag_path(spec[1])
    if k == 'dag':
        return scope.mk_digraph(spec[1], [tuple(e) for e in spec[2]])
    raise KeyError(spec)


def bits(m):
    """smallest k with m <= 2**k (documented bit length of binary mappings)"""
    k = 0
    while (1 << k) < m:
        k += 1
    return k


# ==================================================================== monitor
MON_LOG = []          # problems reported by monitor instances: (symptom, what)
MON_STATS = Counter()
_MON = {}


def handed_ids(vg):
    """the ids the group hands out, through its public call interface"""
    out = []
    for idx in vg.indices():
        out.append(vg(*idx))
    return out


def _scan_max(data, start, kind, cur):
    m = cur
    if kind == 'CNF':
        for i in range(start, len(data)):
            for l in data[i]:
                if isinstance(l, int):
                    a = -l if l < 0 else l
                    if a > m:
                        m = a
    else:
        for i in range(start, len(data)):
            for t in data[i][:-2]:
                try:
                    l = t[1]
                except Exception:
                    continue
                if isinstance(l, int):
                    a = -l if l < 0 else l
                    if a > m:
                        m = a
    return m


def monitors():
    """(MonCNF, MonOPB): subclasses defined here, outside the repository"""
    if _MON:
        return _MON['CNF'], _MON['OPB']
    from cnfgen.formula.cnf import CNF
    from cnfgen.formula.opb import OPB

    def make(base, kind):
        class Mon(base):
            _c10_kind = kind

            def __init__(self, *a, **kw):
                self._c10_scanned = 0
                self._c10_mm = 0
                self._c10_groups_after_clause = 0
                base.__init__(self, *a, **kw)

            def _c10_data(self):
                return self._clauses if kind == 'CNF' else self._constraints

            def _c10_scan(self):
                data = self._c10_data()
                self._c10_mm = _scan_max(data, self._c10_scanned, kind, self._c10_mm)
                self._c10_scanned = len(data)
                return self._c10_mm

            def _add_variable_group(self, vg):
                declared = self.number_of_variables()
                mm = self._c10_scan()
                gname = type(vg).__name__
                MON_STATS['monitor_groups_checked'] += 1
                if self._c10_scanned:
                    MON_STATS['monitor_groups_created_after_a_clause'] += 1
                try:
                    ids = handed_ids(vg)
                except Exception as e:       # the group cannot list its own ids
                    MON_LOG.append(('group-enumeration:exception:' + type(e).__name__,
                                    '%s created at declared=%d cannot enumerate its ids: %r'
                                    % (gname, declared, e)))
                    ids = list(vg.ids)
                n = len(ids)
                want = list(range(declared + 1, declared + n + 1))
                if n:
                    lo = min(ids)
                    if lo <= mm:
                        MON_LOG.append(('reuses-mentioned-id',
                                        '%s hands out id %d but an earlier clause already mentions %d '
                                        '(declared=%d)' % (gname, lo, mm, declared)))
                    elif lo <= declared:
                        MON_LOG.append(('overlaps-declared',
                                        '%s hands out id %d <= declared count %d' % (gname, lo, declared)))
                    if sorted(ids) != want:
                        MON_LOG.append(('ids-not-contiguous-from-declared+1',
                                        '%s hands out %s..%s (%d ids, %d distinct) instead of %d..%d'
                                        % (gname, min(ids), max(ids), n, len(set(ids)),
                                           declared + 1, declared + n)))
                if list(vg.ids) != want:
                    MON_LOG.append(('ids-range-differs-from-handed-ids',
                                    '%s: range of the group is %r but its indices give %d ids from %d'
                                    % (gname, vg.ids, n, declared + 1)))
                base._add_variable_group(self, vg)
                after = self.number_of_variables()
                if after != declared + n:
                    MON_LOG.append(('declared-count-after-group',
                                    '%s with %d variables created at declared=%d leaves declared=%d'
                                    % (gname, n, declared, after)))
        Mon.__name__ = Mon.__qualname__ = 'Mon' + kind
        return Mon
    _MON['CNF'] = make(CNF, 'CNF')
    _MON['OPB'] = make(OPB, 'OPB')
    return _MON['CNF'], _MON['OPB']


@contextmanager
def monitored():
    """Rebind the module-level formula classes used by the transformations and
    the command line tools to the monitor classes (restored afterwards)."""
    MonCNF, MonOPB = monitors()
    import cnfgen.transformations.substitutions as S
    import cnfgen.transformations.shuffle as H
    C = importlib.import_module('cnfgen.clitools.cnfgen')
    P = importlib.import_module('cnfgen.clitools.pbgen')
    saved = [(S, 'CNF', S.CNF), (H, 'CNF', H.CNF), (C, 'CNF', C.CNF), (P, 'OPB', P.OPB)]
    S.CNF = MonCNF
    H.CNF = MonCNF
    C.CNF = MonCNF
    P.OPB = MonOPB
    try:
        yield
    finally:
        for mod, name, val in saved:
            setattr(mod, name, val)


# ===================================================================== oracle
def formula_kind(F):
    return 'OPB' if hasattr(F, '_constraints') else 'CNF'


def oracle(F, expect):
    """Problems of a returned formula: list of (symptom, what)."""
    out = []
    kind = formula_kind(F)
    n = F.number_of_variables()
    if type(n) is not int or n < 0:
        return [('nvars-type', 'number_of_variables() is %r' % (n,))]
    if expect is not None and n != expect:
        out.append(('nvars', 'declares %d variables, the documentation promises %d' % (n, expect)))
    bad_type = bad_range = bad_coeff = bad_shape = None
    nbad = 0
    if kind == 'CNF':
        for ci, cl in enumerate(F.clauses()):
            for l in cl:
                if type(l) is not int:
                    bad_type = bad_type or (ci, l)
                    nbad += 1
                elif l == 0 or not (1 <= abs(l) <= n):
                    bad_range = bad_range or (ci, l)
                    nbad += 1
    else:
        for ci, con in enumerate(F.constraints()):
            if len(con) < 2 or con[-2] not in ('>=', '==') or type(con[-1]) is not int:
                bad_shape = bad_shape or (ci, list(con[-2:]))
                continue
            for t in con[:-2]:
                if not (isinstance(t, tuple) and len(t) == 2):
                    bad_shape = bad_shape or (ci, t)
                    continue
                c, l = t
                if type(c) is not int or c < 0:
                    bad_coeff = bad_coeff or (ci, t)
                if type(l) is not int:
                    bad_type = bad_type or (ci, l)
                    nbad += 1
                elif l == 0 or not (1 <= abs(l) <= n):
                    bad_range = bad_range or (ci, l)
                    nbad += 1
    if bad_type:
        out.append(('literal-type', 'clause %d has literal %r of type %s (%d bad literals)'
                    % (bad_type[0], bad_type[1], type(bad_type[1]).__name__, nbad)))
    if bad_range:
        out.append(('literal-range', 'clause %d has literal %r outside 1..%d (%d bad literals)'
                    % (bad_range[0], bad_range[1], n, nbad)))
    if bad_coeff:
        out.append(('coefficient', 'constraint %d has term %r: coefficient is not a non-negative int'
                    % bad_coeff))
    if bad_shape:
        out.append(('constraint-shape', 'constraint %d is malformed: %r' % bad_shape))
    try:
        nl = sum(1 for _ in F.all_variable_labels())
        if nl != n:
            out.append(('labels-count', 'all_variable_labels() gives %d labels for %d variables' % (nl, n)))
    except Exception as e:
        out.append(('labels:exception:' + type(e).__name__, 'all_variable_labels() raised %r' % (e,)))
    try:
        ok = F.debug(allow_opposite=True, allow_repetition=True)
        zero_coeff = kind != 'CNF' and any(t[0] == 0 for con in F.constraints() for t in con[:-2]
                                           if isinstance(t, tuple) and len(t) == 2)
        # (a term with coefficient 0 is accepted by add_constraint, stored and
        # printed, while debug() calls it malformed: cnfgen disagrees with itself
        # there, but nothing C10 states is involved)
        if ok is not True and not (bad_type or bad_range or bad_coeff or bad_shape or zero_coeff):
            out.append(('debug-false', 'debug(allow_opposite=True, allow_repetition=True) returned %r' % (ok,)))
    except Exception as e:
        if not (bad_type or bad_shape):
            out.append(('debug:exception:' + type(e).__name__, 'debug() raised %r' % (e,)))
    # self-check of the monitor: its incremental scan must agree with a full scan
    if hasattr(F, '_c10_scan'):
        inc = F._c10_scan()
        full = _scan_max(F._c10_data(), 0, kind, 0)
        if inc != full:
            raise AssertionError('monitor scan %r != full scan %r' % (inc, full))
    return out


# ============================================================ families (DOC)
# name -> (exported name in cnfgen/__init__.py, builder(args, formula_class),
#          documented number of variables(args) or None)
def _opkw(a):
    return dict(total=a[1], smart=a[2], plant=a[3], knuth=a[4])


def _vdw_n(a):
    return a[0] if len(a) == 3 else a[0] * (len(a) - 1)


def _pitfall_n(a):
    v, d, ny, nz, k = a[:5]
    nx = v * d // 2
    return k * (nx + ny + nz + (nx + nz) + 3)


def _rand_build(name):
    def build(a, fc):
        import cnfgen
        f = getattr(cnfgen, name)
        k, n, m, seed = a[:4]
        planted = a[4] if len(a) > 4 else None
        return f(k, n, m, seed=seed, planted_assignments=planted, formula_class=fc)
    return build


def _rand_forced(name):
    """The random family run under a SCRIPTED random generator (engine.xp):
    with the all-zero schedule every draw of the rejection sampler repeats the
    same clause/parity, so the sampler exhausts its 10*m retries and takes its
    dense fallback -- a path that seeds practically never reach at these sizes.
    'mix' is a fixed pseudo-random schedule."""
    def build(a, fc):
        import cnfgen
        from engine import xp
        k, n, m, sched = a[:4]
        planted = a[4] if len(a) > 4 else None
        res = {}

        def body():
            res['F'] = getattr(cnfgen, name)(k, n, m, planted_assignments=planted, formula_class=fc)
        ex = xp.Explorer(body, hashing=False, max_dev=0, default=sched, horizon=10 ** 6)
        x = ex._execute(())
        if x['status'] != 'done':
            raise RuntimeError('scripted run did not finish: %s' % x['status'])
        if x['exception'] is not None:
            raise x['exception']
        return res['F']
    return build


def _pitfall_build(a, fc):
    import cnfgen
    random.seed(a[5])
    return cnfgen.PitfallFormula(a[0], a[1], a[2], a[3], a[4], formula_class=fc)


def _c():
    import cnfgen
    return cnfgen


DOC = {
    'php': ('PigeonholePrinciple',
            lambda a, fc: _c().PigeonholePrinciple(a[0], a[1], functional=a[2], onto=a[3], formula_class=fc),
            lambda a: a[0] * a[1]),
    'gphp': ('GraphPigeonholePrinciple',
             lambda a, fc: _c().GraphPigeonholePrinciple(mk_b(a[0]), functional=a[1], onto=a[2], formula_class=fc),
             lambda a: len(bspec(a[0])[2])),
    'bphp': ('BinaryPigeonholePrinciple',
             lambda a, fc: _c().BinaryPigeonholePrinciple(a[0], a[1], formula_class=fc),
             lambda a: a[0] * bits(a[1])),
    'rphp': ('RelativizedPigeonholePrinciple',
             lambda a, fc: _c().RelativizedPigeonholePrinciple(a[0], a[1], a[2], formula_class=fc),
             lambda a: a[0] * a[1] + a[1] * a[2] + a[1]),
    'cliquecoloring': ('CliqueColoring',
                       lambda a, fc: _c().CliqueColoring(a[0], a[1], a[2], formula_class=fc),
                       lambda a: comb(a[0], 2) + a[1] * a[0] + a[0] * a[2]),
    'kcolor': ('GraphColoringFormula',
               lambda a, fc: _c().GraphColoringFormula(mk_g(a[0]), a[1], functional=a[2], formula_class=fc),
               lambda a: g_nE(a[0])[0] * a[1]),
    'ec': ('EvenColoringFormula',
           lambda a, fc: _c().EvenColoringFormula(mk_g(a[0]), formula_class=fc),
           lambda a: g_nE(a[0])[1]),
    'count': ('CountingPrinciple',
              lambda a, fc: _c().CountingPrinciple(a[0], a[1], formula_class=fc),
              lambda a: comb(a[0], a[1])),
    'matching': ('PerfectMatchingPrinciple',
                 lambda a, fc: _c().PerfectMatchingPrinciple(mk_g(a[0]), formula_class=fc),
                 lambda a: g_nE(a[0])[1]),
    'domset': ('DominatingSet',
               lambda a, fc: _c().DominatingSet(mk_g(a[0]), a[1], alternative=a[2], formula_class=fc),
               lambda a: g_nE(a[0])[0] * (1 + a[1])),
    'tiling': ('Tiling',
               lambda a, fc: _c().Tiling(mk_g(a[0]), formula_class=fc),
               lambda a: g_nE(a[0])[0]),
    'iso': ('GraphIsomorphism',
            lambda a, fc: _c().GraphIsomorphism(mk_g(a[0]), mk_g(a[1]), nontrivial=a[2], formula_class=fc),
            lambda a: g_nE(a[0])[0] * g_nE(a[1])[0]),
    'auto': ('GraphAutomorphism',
             lambda a, fc: _c().GraphAutomorphism(mk_g(a[0]), formula_class=fc),
             lambda a: g_nE(a[0])[0] ** 2),
    'op': ('OrderingPrinciple',
           lambda a, fc: _c().OrderingPrinciple(a[0], formula_class=fc, **_opkw(a)),
           lambda a: comb(a[0], 2) if a[2] else a[0] * (a[0] - 1)),
    'gop': ('GraphOrderingPrinciple',
            lambda a, fc: _c().GraphOrderingPrinciple(mk_g(a[0]), formula_class=fc, **_opkw(a)),
            lambda a: comb(g_nE(a[0])[0], 2) if a[2] else g_nE(a[0])[0] * (g_nE(a[0])[0] - 1)),
    'peb': ('PebblingFormula',
            lambda a, fc: _c().PebblingFormula(mk_d(a[0]), formula_class=fc),
            lambda a: dspec_n(a[0])),
    'stone': ('StoneFormula',
              lambda a, fc: _c().StoneFormula(mk_d(a[0]), a[1], formula_class=fc),
              lambda a: a[1] + dspec_n(a[0]) * a[1]),
    'sparsestone': ('SparseStoneFormula',
                    lambda a, fc: _c().SparseStoneFormula(mk_d(a[0]), mk_b(a[1]), formula_class=fc),
                    lambda a: bspec(a[1])[1] + len(bspec(a[1])[2])),
    'ram': ('RamseyNumber',
            lambda a, fc: _c().RamseyNumber(a[0], a[1], a[2], formula_class=fc),
            lambda a: comb(a[2], 2)),
    'ptn': ('PythagoreanTriples',
            lambda a, fc: _c().PythagoreanTriples(a[0], formula_class=fc),
            lambda a: a[0]),
    'vdw': ('VanDerWaerden',
            lambda a, fc: _c().VanDerWaerden(*a, formula_class=fc),
            _vdw_n),
    'randkcnf': ('RandomKCNF', _rand_build('RandomKCNF'), lambda a: a[1]),
    'randkxor': ('RandomKXOR', _rand_build('RandomKXOR'), lambda a: a[1]),
    'randkcnf-scripted': ('RandomKCNF', _rand_forced('RandomKCNF'), lambda a: a[1]),
    'randkxor-scripted': ('RandomKXOR', _rand_forced('RandomKXOR'), lambda a: a[1]),
    'subgraph': ('SubgraphFormula',
                 lambda a, fc: _c().SubgraphFormula(mk_g(a[0]), mk_g(a[1]), induced=a[2], symbreak=a[3],
                                                    formula_class=fc),
                 lambda a: g_nE(a[1])[0] * g_nE(a[0])[0]),
    'kclique': ('CliqueFormula',
                lambda a, fc: _c().CliqueFormula(mk_g(a[0]), a[1], symbreak=a[2], formula_class=fc),
                lambda a: a[1] * g_nE(a[0])[0]),
    'kcliquebin': ('BinaryCliqueFormula',
                   lambda a, fc: _c().BinaryCliqueFormula(mk_g(a[0]), a[1], symbreak=a[2], formula_class=fc),
                   lambda a: a[1] * bits(g_nE(a[0])[0])),
    'ramlb': ('RamseyWitnessFormula',
              lambda a, fc: _c().RamseyWitnessFormula(mk_g(a[0]), a[1], a[2], symbreak=a[3], formula_class=fc),
              lambda a: 1 + a[1] * g_nE(a[0])[0] if a[1] == a[2] else None),
    'subsetcard': ('SubsetCardinalityFormula',
                   lambda a, fc: _c().SubsetCardinalityFormula(mk_b(a[0]), equalities=a[1], formula_class=fc),
                   lambda a: len(bspec(a[0])[2])),
    'tseitin': ('TseitinFormula',
                lambda a, fc: _c().TseitinFormula(mk_g(a[0]), a[1], formula_class=fc),
                lambda a: g_nE(a[0])[1]),
    'pitfall': ('PitfallFormula', _pitfall_build, _pitfall_n),
    'cpls': ('CPLSFormula',
             lambda a, fc: _c().CPLSFormula(a[0], a[1], a[2], formula_class=fc),
             lambda a: a[0] * a[1] * a[2] + a[0] * a[1] * bits(a[1]) + a[1] * bits(a[2])),
}


def _raw_build(a, fc):
    """a hand-made formula (declared count with a trailing unused variable,
    empty clause, repeated and opposite literals) as base of chains"""
    F = fc(description='raw')
    F.update_variable_number(a[0])
    for c in a[1]:
        F.add_clause(list(c))
    return F


DOC_RAW = {'raw': (None, _raw_build, lambda a: a[0])}


# ------------------------------------------------------- transformations (DOC)
def comp_graph(n, r, d):
    """deterministic bipartite graph n x r, left degree min(d, r)"""
    E = set()
    for u in range(1, n + 1):
        for j in range(min(d, r)):
            E.add((u, 1 + (u - 1 + j) % r))
    return scope.mk_bipartite(n, r, sorted(E))


def _t():
    import cnfgen
    return cnfgen


TDOC = {
    # name -> (exported name, apply(F, targs), documented count(n, targs))
    'flip': ('FlipPolarity', lambda F, t: _t().FlipPolarity(F), lambda n, t: n),
    'shuffle': ('Shuffle', None, lambda n, t: n),
    'or': ('OrSubstitution', lambda F, t: _t().OrSubstitution(F, t[0]), lambda n, t: n * t[0]),
    'xor': ('XorSubstitution', lambda F, t: _t().XorSubstitution(F, t[0]), lambda n, t: n * t[0]),
    'maj': ('MajoritySubstitution', lambda F, t: _t().MajoritySubstitution(F, t[0]), lambda n, t: n * t[0]),
    'eq': ('AllEqualSubstitution', lambda F, t: _t().AllEqualSubstitution(F, t[0]), lambda n, t: n * t[0]),
    'neq': ('NotAllEqualSubstitution', lambda F, t: _t().NotAllEqualSubstitution(F, t[0]),
            lambda n, t: n * t[0]),
    'one': ('ExactlyOneSubstitution', lambda F, t: _t().ExactlyOneSubstitution(F, t[0]),
            lambda n, t: n * t[0]),
    'atleast': ('AtLeastKSubstitution', lambda F, t: _t().AtLeastKSubstitution(F, t[0], t[1]),
                lambda n, t: n * t[0]),
    'atmost': ('AtMostKSubstitution', lambda F, t: _t().AtMostKSubstitution(F, t[0], t[1]),
               lambda n, t: n * t[0]),
    'exact': ('ExactlyKSubstitution', lambda F, t: _t().ExactlyKSubstitution(F, t[0], t[1]),
              lambda n, t: n * t[0]),
    'anybut': ('AnythingButKSubstitution', lambda F, t: _t().AnythingButKSubstitution(F, t[0], t[1]),
               lambda n, t: n * t[0]),
    'ite': ('IfThenElseSubstitution', lambda F, t: _t().IfThenElseSubstitution(F), lambda n, t: 3 * n),
    'lift': ('FormulaLifting', lambda F, t: _t().FormulaLifting(F, t[0]), lambda n, t: 2 * t[0] * n),
    'xorcomp': ('VariableCompression',
                lambda F, t: _t().VariableCompression(F, comp_graph(F.number_of_variables(), t[0], t[1]), 'xor'),
                lambda n, t: t[0]),
    'majcomp': ('VariableCompression',
                lambda F, t: _t().VariableCompression(F, comp_graph(F.number_of_variables(), t[0], t[1]), 'maj'),
                lambda n, t: t[0]),
}


def apply_transformation(F, step):
    name, targs = step[0], step[1:]
    if name == 'shuffle':
        random.seed(targs[0])
        if len(targs) > 1:
            # targs[1]: which of polarity flips / variable permutation / clause
            # permutation are asked to stay 'fixed' (a subset of 'pvc')
            kw = {}
            for ch, opt in (('p', 'polarity_flips'), ('v', 'variables_permutation'),
                            ('c', 'clauses_permutation')):
                kw[opt] = 'fixed' if ch in targs[1] else 'shuffle'
            return _t().Shuffle(F, **kw)
        return _t().Shuffle(F)
    return TDOC[name][1](F, targs)


# ================================================================ Part A: run
def _viol(key, what, case):
    return {'key': key, 'what': what, 'case': case}


def _drain_monitor():
    probs = list(MON_LOG)
    del MON_LOG[:]
    return probs


def check_family_case(case, R=None):
    """family (+ chain) built under the monitor, oracle after every stage"""
    MonCNF, MonOPB = monitors()
    fam, args, cls = case['fam'], case['args'], case.get('cls', 'CNF')
    chain = case.get('chain', [])
    fc = MonCNF if cls == 'CNF' else MonOPB
    table = DOC if fam in DOC else DOC_RAW
    out = []
    del MON_LOG[:]
    with monitored():
        stage = '%s:%s' % (fam, cls)
        try:
            F = table[fam][1](args, fc)
        except Exception as e:     # every case of the box is inside the documented domain
            return [_viol('%s:exception:%s' % (stage, type(e).__name__),
                          'building the formula raised %r' % (e,), case)]
        expect = table[fam][2](args)
        probs = [('monitor:' + s, w) for s, w in _drain_monitor()] + oracle(F, expect)
        if R is not None:
            R.stats['executions'] += 1
            R.nt = F.number_of_variables() > 0 and len(F) > 0
        for s, w in probs:
            out.append(_viol('%s:%s' % (stage, s), w, case))
        if out:
            return out
        earlier = []        # (stage, formula object, declared count, number of clauses)
        for step in chain:
            stage = 'T:%s' % step[0]
            n_in = F.number_of_variables()
            earlier.append((stage, F, n_in, len(F)))
            try:
                F = apply_transformation(F, step)
            except Exception as e:
                return [_viol('%s:exception:%s' % (stage, type(e).__name__),
                              'transformation %r on a formula with %d variables raised %r'
                              % (step, n_in, e), case)]
            expect = TDOC[step[0]][2](n_in, step[1:])
            probs = [('monitor:' + s, w) for s, w in _drain_monitor()] + oracle(F, expect)
            if R is not None:
                R.stats['executions'] += 1
            for s, w in probs:
                out.append(_viol('%s:%s' % (stage, s), '%s (input had %d variables, step %r)'
                                 % (w, n_in, step), case))
            if out:
                return out
        if chain:
            # the user goes on building on the result: what is created now is
            # fresh for the result, and the formulas it was made from keep their
            # own variables and clauses
            n0 = F.number_of_variables()
            try:
                F.add_clause([n0 + 1, -(n0 + 2)])
                v = F.new_variable()
                blk = F.new_block(2)
                ids = [v] + [blk(i) for i in (1, 2)]
            except Exception as e:
                return [_viol('%s:extend:exception:%s' % (stage, type(e).__name__),
                              'extending the result raised %r' % (e,), case)]
            _drain_monitor()
            if ids != [n0 + 3, n0 + 4, n0 + 5] or F.number_of_variables() != n0 + 5:
                out.append(_viol('%s:extend:ids' % stage,
                                 'on the result with %d variables, a clause on %d,%d, then new_variable and '
                                 'new_block(2) hand out %r and declare %d variables' %
                                 (n0, n0 + 1, n0 + 2, ids, F.number_of_variables()), case))
            for (st_, Fe, ne, me) in earlier:
                mx = max([abs(l) for cl in Fe for l in cl] or [0])
                if Fe.number_of_variables() != ne or len(Fe) != me or mx > ne:
                    out.append(_viol('%s:extend:input-of-%s-changed' % (stage, st_.split(':', 1)[-1]),
                                     'after extending the result, a formula the chain started from declares '
                                     '%d variables (was %d), has %d clauses (was %d), largest literal %d' %
                                     (Fe.number_of_variables(), ne, len(Fe), me, mx), case))
            # ... and the other way round: extending what the chain started from
            # leaves the result alone
            if not out:
                nr, mr = F.number_of_variables(), len(F)
                for (st_, Fe, ne, me) in earlier:
                    try:
                        w = Fe.new_variable()
                        Fe.add_clause([w])
                    except Exception as e:
                        return [_viol('%s:extend-input:exception:%s' % (stage, type(e).__name__),
                                      'extending the input raised %r' % (e,), case)]
                    if w != ne + 1:
                        out.append(_viol('%s:extend-input:ids' % stage,
                                         'new_variable on an input with %d variables returned %d' % (ne, w), case))
                _drain_monitor()
                mx = max([abs(l) for cl in F for l in cl] or [0])
                if F.number_of_variables() != nr or len(F) != mr or mx > nr:
                    out.append(_viol('%s:extend-input:result-changed' % stage,
                                     'after extending the inputs, the result declares %d variables (was %d), '
                                     'has %d clauses (was %d), largest literal %d' %
                                     (F.number_of_variables(), nr, len(F), mr, mx), case))
    return out


def run_cli(tool, argv, rseed):
    """in-process command line -> ('ok', formula) | ('error', text)"""
    from cnfgen.clitools import msg
    from cnfgen.clitools.cmdline import CLIError
    import io
    import sys
    C = importlib.import_module('cnfgen.clitools.cnfgen')
    P = importlib.import_module('cnfgen.clitools.pbgen')
    if hasattr(msg, '_prefix'):
        msg._prefix = ''
    random.seed(rseed)
    cli = C.cli if tool == 'cnfgen' else P.cli
    old = sys.stdin, sys.stderr
    sys.stdin = io.StringIO('')
    sys.stderr = io.StringIO()
    try:
        return 'ok', cli([tool, '-q'] + list(argv), mode='formula')
    except CLIError as e:
        return 'error', 'CLIError: %s' % (e,)
    except SystemExit as e:
        return 'error', 'SystemExit: %r %s' % (e.code, sys.stderr.getvalue()[:200])
    finally:
        sys.stdin, sys.stderr = old
        if hasattr(msg, '_prefix'):
            msg._prefix = ''


def _cli_chunks(argv):
    chunks = [[]]
    for a in argv:
        if a == '-T':
            chunks.append([])
        else:
            chunks[-1].append(a)
    return chunks


def _cli_stage_key(tool, chunks):
    """key prefix naming the last stage of the command line: the family
    sub-command, or the last transformation"""
    last = chunks[-1]
    words = [str(w) for w in last if not str(w).startswith('-')]
    name = words[0] if words else '?'
    if len(chunks) == 1:
        return 'cli:%s:%s' % (tool, name)
    return 'cli:%s:-T.%s' % (tool, name)


def _check_cli_once(case, argv, expect, R=None):
    tool = case['tool']
    tmp = None
    shown = list(argv)
    if case.get('dimacs') is not None:       # the 'dimacs' sub-command reads a file
        fd, tmp = tempfile.mkstemp(suffix='.cnf', prefix='c10_')
        with os.fdopen(fd, 'w') as f:
            f.write(case['dimacs'])
        argv = [tmp if a == '@FILE' else a for a in argv]
    key = _cli_stage_key(tool, _cli_chunks(shown))
    del MON_LOG[:]
    try:
        with monitored():
            try:
                status, F = run_cli(tool, argv, case.get('rseed', 1))
            except Exception as e:
                return [_viol('%s:exception:%s' % (key, type(e).__name__),
                              'command line %r raised %r' % (shown, e), case)]
    finally:
        if tmp:
            os.unlink(tmp)
    if status != 'ok':              # every command line of the box is documented usage
        return [_viol('%s:refused' % key, 'command line %r was refused: %s' % (shown, F), case)]
    MonCNF, MonOPB = monitors()
    out = []
    if not isinstance(F, (MonCNF, MonOPB)):
        raise AssertionError('command line tool did not build a monitored formula: %r' % type(F))
    probs = [('monitor:' + s, w) for s, w in _drain_monitor()] + oracle(F, expect)
    if R is not None:
        R.stats['executions'] += 1
        R.stats['cli_formulas'] += 1
        R.nt = F.number_of_variables() > 0 and len(F) > 0
    for s, w in probs:
        out.append(_viol('%s:%s' % (key, s), '%s [%s %s]' % (w, tool, ' '.join(map(str, shown))), case))
    return out


def check_cli_case(case, R=None):
    """The whole command line; when it fails and has transformations, the
    shorter command lines (family alone, family + first transformation, ...)
    are run as well so that the violation is attributed to the first stage
    that breaks (one defect = one key)."""
    argv = list(case['argv'])
    expects = case['expects']
    vs = _check_cli_once(case, argv, expects[-1], R)
    chunks = _cli_chunks(argv)
    if not vs or len(chunks) == 1:
        return vs
    for j in range(1, len(chunks)):
        sub = list(chunks[0])
        for c in chunks[1:j]:
            sub += ['-T'] + c
        v2 = _check_cli_once(case, sub, expects[j - 1])
        if v2:
            return v2
    return vs


# ============================================================== Part A: box
BOOL2 = [(f, o) for f in (False, True) for o in (False, True)]

G_BOX = [
    ['cycle', 8], ['grid', 3, 3], ['complete', 6], ['path', 7], ['petersen'],
    ['union', ['cycle', 5], ['path', 4]], ['pad', ['cycle', 6], 2],
    ['padfront', ['path', 5], 2], ['wheel', 7], ['star', 9], ['grid', 2, 6],
    ['circulant', 13, [1, 5]], ['circulant', 14, [1, 2, 7]], ['empty', 6],
    ['union', ['complete', 4], ['complete', 4]], ['nx', ['cycle', 7]],
    ['nx', ['pad', ['grid', 2, 3], 1]],
]
G_EVEN = [['cycle', 8], ['complete', 7], ['circulant', 13, [1, 5]], ['complete', 5],
          ['union', ['cycle', 4], ['cycle', 6]], ['pad', ['cycle', 6], 2],
          ['circulant', 12, [1, 3]], ['empty', 6], ['nx', ['cycle', 9]]]
G_SMALL = [['cycle', 6], ['grid', 2, 3], ['complete', 6], ['path', 7],
           ['union', ['cycle', 3], ['path', 3]], ['pad', ['star', 5], 2], ['wheel', 8], ['empty', 6]]
B_BOX = [
    ['bcomplete', 5, 4], ['bshift', 7, 9, [0, 1, 3]], ['bshift', 6, 6, [0, 2]],
    ['bedges', 4, 5, [[1, 1], [1, 5], [2, 2], [2, 3], [2, 4], [4, 1], [4, 5]]],   # left 3 isolated
    ['bpad', ['bshift', 5, 5, [0, 1]], 2, 1], ['bempty', 3, 4],
    ['bedges', 6, 4, [[1, 4], [2, 1], [2, 2], [2, 3], [2, 4], [3, 2], [5, 2], [5, 3], [6, 1]]],
    ['bshift', 12, 10, [0, 3, 4, 7]], ['bcomplete', 1, 7], ['bcomplete', 6, 1],
]
D_BOX = [
    ['pyramid', 3], ['pyramid', 4], ['tree', 2], ['tree', 3], ['dpath', 6], ['pyramid', 0],
    ['dag', 7, [[1, 3], [2, 3], [3, 5], [4, 5], [5, 6]]],                 # 7 isolated
    ['dag', 8, [[1, 2], [2, 3], [3, 4], [5, 6], [6, 7], [7, 8]]],         # two paths
    ['dag', 6, [[1, 4], [2, 4], [3, 4], [4, 5], [4, 6]]],                 # in-degree 3, two sinks
]
OP_FLAGS = [(t, s, p, k) for t in (False, True) for s in (False, True)
            for p in (False, True) for k in (0, 2, 3)]


def family_box(tier, seed):
    thorough = tier == 'thorough'
    cs = []

    def add(fam, *args):
        cs.append((fam, list(args)))
    for (p, h) in [(12, 10), (10, 12), (7, 7), (0, 5), (5, 0), (1, 1), (9, 4)]:
        for f, o in BOOL2:
            add('php', p, h, f, o)
    for b in B_BOX:
        for f, o in BOOL2:
            add('gphp', b, f, o)
        for e in (False, True):
            add('subsetcard', b, e)
    for a in [(9, 7), (5, 8), (6, 1), (4, 16), (7, 17), (10, 5), (3, 2), (0, 3)]:
        add('bphp', *a)
    for a in [(5, 7, 6), (6, 4, 5), (3, 0, 4), (0, 3, 3), (4, 4, 4), (7, 3, 2), (1, 9, 1)]:
        add('rphp', *a)
    for a in [(3, 4, 4), (2, 2, 8), (1, 1, 1), (4, 2, 2), (2, 8, 2), (1, 4, 1)]:
        add('cpls', *a)
    for a in [(9, 3), (8, 2), (7, 7), (6, 4), (10, 2), (5, 1), (0, 2), (3, 5)]:
        add('count', *a)
    for a in [(6, 3, 3), (7, 4, 3), (5, 5, 4), (8, 3, 2), (6, 0, 3), (0, 2, 2), (5, 2, 0)]:
        add('cliquecoloring', *a)
    for a in [(4, 4, 9), (3, 3, 6), (3, 5, 8), (2, 2, 5), (5, 3, 7), (3, 3, 0), (3, 3, 1)]:
        add('ram', *a)
    for n in [30, 13, 5, 0, 50]:
        add('ptn', n)
    for a in [(20, 3, 3, 3), (25, 4, 4), (12, 3, 4), (15, 2, 3, 3, 2), (9, 1, 3), (0, 3, 3), (10, 3, 3, 1)]:
        add('vdw', *a)
    for a in [(3, 20, 60, 7), (2, 8, 30, 1), (4, 12, 0, 3), (3, 3, 8, 5), (1, 6, 12, 2),
              (3, 12, 20, 4, [[1, -2, 3, -4, 5, -6, 7, -8, 9, -10, 11, -12]])]:
        add('randkcnf', *a)
    for a in [(3, 15, 20, 7), (2, 6, 10, 1), (4, 10, 0, 2), (1, 5, 3, 9),
              (3, 8, 10, 4, [[1, -2, 3, -4, 5, -6, 7, -8]])]:
        add('randkxor', *a)
    for fam_ in ('randkcnf-scripted', 'randkxor-scripted'):
        # 'zero:T' = all-zero answers during the 10*m retries of the sparse
        # sampler (2k draws each), then a mixed schedule for the dense fallback
        for a in [(3, 7, 5, 'zero:300'), (2, 6, 4, 'zero:160'), (1, 5, 3, 'zero:60'),
                  (3, 12, 6, 'zero:360'), (3, 20, 10, 'zero:600'),
                  (3, 7, 5, 'mix'), (2, 5, 20, 'mix'), (1, 4, 8, 'mix'), (2, 4, 12, 'mix'),
                  (3, 8, 4, 'zero:240', [[1, -2, 3, -4, 5, -6, 7, -8]])]:
            add(fam_, *a)
    for a in [(8, 3, 4, 3, 2, 5), (6, 4, 3, 2, 4, 1), (10, 3, 5, 4, 2, 2), (4, 2, 2, 2, 2, 3)]:
        add('pitfall', *a)
    # more sets / colours than vertices, in both encodings
    for g_ in (['path', 3], ['complete', 2], ['empty', 1], ['grid', 2, 2], ['star', 5]):
        n_ = g_nE(g_)[0]
        for d_ in (n_ + 1, n_ + 3, 2 * n_ + 1):
            for alt_ in (False, True):
                add('domset', g_, d_, alt_)
        add('kcolor', g_, n_ + 2, False)
        add('kcolor', g_, n_ + 2, True)
    for g in G_BOX:
        add('matching', g)
        add('tiling', g)
        add('auto', g)
        for k in (3, 4):
            for f in (False, True):
                add('kcolor', g, k, f)
        for d in (2, 3):
            for alt in (False, True):
                add('domset', g, d, alt)
        n = g_nE(g)[0]
        for ch in (None, [True] * n, [i % 2 == 0 for i in range(n)], [1], [0, 1] * n):
            add('tseitin', g, ch)
        for k in (3, 4, 5):
            for sb in (False, True):
                add('kclique', g, k, sb)
        for k in (3, 4):
            for sb in (False, True):
                add('kcliquebin', g, k, sb)
        for (k, s) in [(3, 3), (4, 4), (3, 4), (4, 3)]:
            for sb in (False, True):
                add('ramlb', g, k, s, sb)
    add('kcliquebin', ['circulant', 13, [1, 5]], 4, True)      # named in the plan
    add('kcliquebin', ['cycle', 8], 4, True)                   # order a power of two
    add('kcliquebin', ['cycle', 9], 5, False)
    add('kcliquebin', ['complete', 1], 2, True)                # bit length 0
    for g in G_EVEN:
        add('ec', g)
    for (g1, g2) in [(['cycle', 6], ['cycle', 6]), (['grid', 2, 3], ['path', 6]),
                     (['petersen'], ['petersen']), (['cycle', 8], ['union', ['cycle', 4], ['cycle', 4]]),
                     (['complete', 6], ['pad', ['complete', 4], 2]), (['path', 6], ['cycle', 7]),
                     (['nx', ['cycle', 6]], ['cycle', 6]), (['empty', 6], ['complete', 6])]:
        for nt in (False, True):
            add('iso', g1, g2, nt)
    for g in [['petersen'], ['grid', 3, 3], ['circulant', 13, [1, 5]], ['pad', ['cycle', 6], 2]]:
        for h in [['complete', 3], ['path', 4], ['cycle', 4], ['star', 4],
                  ['union', ['path', 2], ['path', 2]], ['pad', ['path', 2], 1]]:
            for ind, sb in BOOL2:
                add('subgraph', g, h, ind, sb)
    for N in (0, 1, 2, 6, 8):
        for fl in OP_FLAGS:
            add('op', N, *fl)
    for g in G_SMALL:
        for fl in OP_FLAGS:
            add('gop', g, *fl)
    for d in D_BOX:
        add('peb', d)
        for s in (1, 3, 4):
            add('stone', d, s)
        n = dspec_n(d)
        add('sparsestone', d, ['bshift', n, 5, [0, 2]])
        add('sparsestone', d, ['bshift', n, 4, [0, 1, 2]])
        add('sparsestone', d, ['bpad', ['bshift', n, 3, [1]], 0, 2])      # two unused stones
    add('stone', ['pyramid', 4], 5)
    add('stone', ['pyramid', 3], 0)
    if thorough:
        for (p, h) in [(16, 14), (20, 5), (3, 40)]:
            for f, o in BOOL2:
                add('php', p, h, f, o)
        add('count', 12, 4)
        add('count', 11, 3)
        add('bphp', 20, 33)
        add('rphp', 9, 11, 10)
        add('cpls', 4, 8, 8)
        add('cpls', 3, 16, 4)
        add('vdw', 60, 4, 5)
        add('vdw', 40, 3, 3, 3, 3)
        add('ptn', 200)
        add('ram', 4, 5, 12)
        add('cliquecoloring', 10, 5, 4)
        add('stone', ['pyramid', 5], 6)
        add('stone', ['tree', 4], 5)
        add('pitfall', 12, 4, 6, 5, 4, 8)
        add('randkcnf', 5, 60, 300, 11)
        add('randkxor', 4, 40, 60, 11)
        for g in [['grid', 4, 5], ['circulant', 24, [1, 2, 5]], ['union', ['petersen'], ['grid', 3, 3]]]:
            add('kclique', g, 6, True)
            add('kcliquebin', g, 5, False)
            add('domset', g, 4, False)
            add('domset', g, 3, True)
            add('kcolor', g, 5, True)
            add('matching', g)
            add('tseitin', g, None)
            add('auto', g)
            add('ramlb', g, 4, 4, True)
            add('subgraph', g, ['cycle', 5], True, False)
            add('gop', g, False, False, False, 0)
            add('gop', g, True, True, True, 3)
    # VERIF_SEED rotates a few additional mid-size instances (never the core)
    extra = [('php', [11, 9, True, False]), ('bphp', [11, 6]), ('rphp', [6, 5, 7]),
             ('count', [8, 3]), ('vdw', [18, 3, 4, 3]), ('cpls', [2, 4, 8]),
             ('ram', [3, 4, 8]), ('cliquecoloring', [7, 3, 4]), ('ptn', [41]),
             ('kclique', [['circulant', 12, [1, 4]], 4, True]),
             ('domset', [['circulant', 11, [2, 3]], 3, False])]
    for i in range(3):
        fam, args = extra[(seed * 3 + i) % len(extra)]
        cs.append((fam, list(args)))
    # exact duplicates (a named case that the loops also produce) are dropped
    seen = set()
    out = []
    for cls in ('CNF', 'OPB'):
        for fam, args in cs:
            k = repr((fam, args, cls))
            if k in seen:
                continue
            seen.add(k)
            out.append({'kind': 'fam', 'fam': fam, 'args': args, 'cls': cls})
    return out


T_SMALL = [['flip'], ['shuffle', 3], ['shuffle', 4, 'pvc'], ['shuffle', 4, 'pc'], ['shuffle', 2, 'v'], ['or', 2], ['xor', 2], ['maj', 2], ['eq', 2], ['neq', 2],
           ['one', 2], ['atleast', 2, 1], ['atmost', 2, 1], ['exact', 2, 1], ['anybut', 2, 1],
           ['ite'], ['lift', 2], ['xorcomp', 3, 2], ['majcomp', 4, 3], ['or', 1], ['lift', 1]]
T_BIG = [['flip'], ['shuffle', 5]] + [['shuffle', 6, m] for m in ('pvc', 'pv', 'pc', 'vc', 'p', 'v', 'c', '')] + [['or', 3], ['xor', 3], ['maj', 3], ['eq', 3], ['neq', 4],
         ['one', 3], ['atleast', 3, 2], ['atmost', 4, 1], ['exact', 3, 1], ['anybut', 3, 2],
         ['exact', 2, 3], ['atleast', 3, 5], ['anybut', 2, 0],
         ['ite'], ['lift', 3], ['xorcomp', 5, 2], ['majcomp', 7, 3], ['xorcomp', 40, 3], ['maj', 4], ['xor', 1]]
RAW = ['raw', [5, [[1, -2], [3], [], [2, 2, -1], [4, -4]]]]        # variable 5 unused
CHAIN_BASES_2 = [RAW, ['php', [2, 2, False, False]], ['tseitin', [['path', 3], None]],
                 ['raw', [0, []]], ['raw', [2, [[], [-2]]]]]
CHAIN_BASES_1 = [RAW, ['php', [5, 4, True, False]], ['tseitin', [['cycle', 8], None]],
                 ['op', [4, False, False, False, 0]], ['rphp', [3, 3, 2]], ['peb', [['pyramid', 3]]],
                 ['ptn', [20]], ['randkcnf', [3, 10, 25, 2]], ['bphp', [5, 4]],
                 ['cpls', [2, 2, 2]], ['kcolor', [['cycle', 5], 3, True]], ['raw', [0, []]]]


def chain_box(tier, seed):
    thorough = tier == 'thorough'
    out = []
    for fam, args in CHAIN_BASES_1:
        for t in T_BIG:
            out.append({'kind': 'fam', 'fam': fam, 'args': args, 'cls': 'CNF', 'chain': [t]})
    for fam, args in CHAIN_BASES_2:
        for t1 in T_SMALL:
            for t2 in T_SMALL:
                out.append({'kind': 'fam', 'fam': fam, 'args': args, 'cls': 'CNF', 'chain': [t1, t2]})
    if thorough:
        for fam, args in [RAW, ['php', [3, 2, False, False]]]:
            for t1 in T_BIG:
                for t2 in T_SMALL:
                    out.append({'kind': 'fam', 'fam': fam, 'args': args, 'cls': 'CNF', 'chain': [t1, t2]})
                    out.append({'kind': 'fam', 'fam': fam, 'args': args, 'cls': 'CNF', 'chain': [t2, t1]})
    seen = set()
    res = []
    for c in out:
        k = repr(c)
        if k not in seen:
            seen.add(k)
            res.append(c)
    return res


# ------------------------------------------------------------- CLI box
def cli_box(tier, seed):
    """(argv, documented count) - counts from the same documentation as DOC,
    graph sizes from the documentation of the graph constructions."""
    both = [
        (['php', 12, 10], 120), (['php', 12, 10, '--functional'], 120),
        (['php', 12, 10, '--onto'], 120), (['php', 9, 9, '--functional', '--onto'], 81),
        (['php', 7, 5, 3], 21),                       # random left-regular, degree 3
        (['php', 'complete', 4, 3], 12), (['php', 'shift', 5, 7, 0, 1, 3], 15),
        (['php', 'glrd', 6, 5, 2, '--onto'], 12), (['php', 'glrm', 6, 6, 11], 11),
        (['php', 'regular', 6, 4, 2], 12), (['php', 'empty', 3, 4], 0),
        (['bphp', 9, 7], 27), (['bphp', 5, 8], 15), (['bphp', 4, 1], 0),
        (['rphp', 5, 7, 6], 35 + 42 + 7), (['rphp', 0, 3, 2], 9),
        (['cliquecoloring', 6, 3, 3], 15 + 18 + 18),
        (['count', 9, 3], 84), (['parity', 7], 21), (['parity', 0], 0),
        (['cpls', 3, 4, 4], 48 + 24 + 8), (['cpls', 2, 2, 8], 32 + 4 + 6),
        (['kcolor', 3, 'grid', 3, 3], 27), (['kcolor', 4, 'gnp', 9, '.5'], 36),
        (['kcolor', 3, 'gnm', 10, 14, 'plantclique', 4], 30),
        (['kcolor', 2, 'complete', 3, 3], 18),        # complete 3-partite, 9 vertices
        (['ec', 'torus', 3, 3], 18), (['ec', 'complete', 5], 10), (['ec', 'gnd', 10, 4], 20),
        (['domset', 2, 'grid', 3, 3], 27), (['domset', '--alternative', 3, 'gnd', 8, 3], 32),
        (['tiling', 'grid', 3, 4], 12), (['tiling', 'empty', 6], 6),
        (['iso', 'complete', 4], 16), (['iso', 'grid', 2, 3, '-e', 'torus', 3, 2], 36),
        (['kclique', 4, 'gnm', 13, 30], 52), (['kclique', 3, 'complete', 6, '--no-symmetry-breaking'], 18),
        (['kcliquebin', 4, 'gnp', 13, '.5'], 16), (['kcliquebin', 3, 'gnm', 8, 12], 9),
        (['ramlb', 3, 3, 'gnd', 10, 3], 31), (['ramlb', 4, 4, 'gnm', 9, 18], 37),
        (['subgraph', '-G', 'complete', 6, '-H', 'complete', 3], 18),
        (['subgraph', '-G', 'gnp', 8, '.5', '-H', 'grid', 2, 2], 32),
        (['op', 6], 30), (['op', 6, '--total'], 30), (['op', 6, '--smart'], 15),
        (['op', 6, '--plant'], 30), (['op', 6, '--knuth2'], 30), (['op', 6, '--knuth3', '--plant'], 30),
        (['op', 8, 3], 56), (['op', 'grid', 3, 3], 72), (['op', 'grid', 3, 3, '--smart'], 36),
        (['op', 0], 0),
        (['peb', 'pyramid', 4], 15), (['peb', 'tree', 3], 15), (['peb', 'path', 9], 10),
        (['stone', 4, 'pyramid', 3], 4 + 40), (['stone', 5, 'pyramid', 3, '--sparse', 3], 5 + 30),
        (['stone', 3, 'tree', 2], 3 + 21), (['stone', 2, 'path', 5, '--sparse', 1], 2 + 6),
        (['ram', 4, 4, 9], 36), (['ram', 3, 5, 8], 28), (['ptn', 30], 30),
        (['vdw', 20, 3, 3, 3], 60), (['vdw', 25, 4, 4], 25), (['vdw', 9, 1, 3], 9),
        (['randkcnf', 3, 20, 60], 20), (['randkcnf', 3, 12, 20, '--plant'], 12),
        (['randkxor', 3, 15, 20], 15), (['randkxor', 2, 9, 7, '--plant'], 9),
        (['matching', 'gnd', 10, 3], 15), (['matching', 'grid', 3, 4], 17),
        (['tseitin', 10, 4], 20), (['tseitin', 9], 18), (['tseitin', 'first', 'grid', 3, 3], 12),
        (['tseitin', 'randomodd', 'gnd', 8, 3], 12), (['tseitin', 'random', 'torus', 3, 3], 18),
        (['tseitin', 'one', 'complete', 5], 10), (['tseitin', 'zero', 'empty', 4], 0),
        (['subsetcard', 6], 25), (['subsetcard', 5, 2], 11), (['subsetcard', 'complete', 4, 4, '--equal'], 16),
        (['subsetcard', 'shift', 6, 6, 0, 1, 3], 18),
        (['pitfall', 8, 3, 4, 3, 2], 74), (['pitfall', 6, 4, 3, 2, 4], 4 * (12 + 3 + 2 + 14 + 3)),
        (['or', 3, 2], 5), (['or', 0, 0], 0), (['and', 2, 3], 5), (['and', 0, 4], 4),
        (['true'], 0), (['false'], 0),
        # dense random graphs with a few edges added (one variable per edge), several seeds
        (['php', 'glrd', 12, 12, 11, 'addedges', 3], 135),
        (['php', 'glrd', 10, 10, 9, 'addedges', 4], 94), (['subsetcard', 'glrd', 8, 8, 7, 'addedges', 2], 58),
        (['tseitin', 'first', 'gnm', 9, 33, 'addedges', 2], 35), (['php', 'glrm', 6, 6, 33, 'addedges', 3], 36),
        # a left degree larger than the number of left vertices (and smaller than the right side)
        (['php', 3, 10, 5], 15), (['php', 2, 6, 4], 8), (['php', 'glrd', 3, 7, 5], 15),
        (['subsetcard', 'glrd', 2, 5, 3], 6), (['stone', 5, 'path', 2, '--sparse', 4], 5 + 3 * 4),

    ]
    out = []
    for i, (argv, n) in enumerate(both):
        for tool in ('cnfgen', 'pbgen'):
            out.append({'kind': 'cli', 'tool': tool, 'argv': [str(a) for a in argv],
                        'expects': [n], 'rseed': 100 + i})
    # the dense `addedges` requests under several generators (rare outcomes of
    # the sample-and-retry loop)
    for (argv, n) in both:
        if 'addedges' in argv:
            for rs in range(1, 13):
                out.append({'kind': 'cli', 'tool': 'cnfgen', 'argv': [str(a) for a in argv],
                            'expects': [n], 'rseed': rs})
    dimacs = 'c comment\np cnf 6 4\n1 -2 0\n3 0\n0\n-5 2 2 0\n'
    out.append({'kind': 'cli', 'tool': 'cnfgen', 'argv': ['dimacs', '@FILE'], 'expects': [6],
                'rseed': 1, 'dimacs': dimacs})
    # a DIMACS input that declares variables and has no clause at all, or none
    # that uses the last variables
    for text_, n_ in (('p cnf 7 0\n', 7), ('c only a header\np cnf 1 0\n', 1), ('p cnf 9 1\n1 -2 0\n', 9),
                      ('p cnf 0 0\n', 0)):
        out.append({'kind': 'cli', 'tool': 'cnfgen', 'argv': ['dimacs', '@FILE'], 'expects': [n_],
                    'rseed': 1, 'dimacs': text_})
    # transformations through the command line (cnfgen only)
    bases = [(['php', 4, 3], 12), (['tseitin', 'first', 'grid', 2, 3], 7), (['or', 2, 1], 3),
             (['op', 3], 6), (['and', 0, 0], 0), (['randkcnf', 2, 9, 2], 9)]   # last: unused variables
    t1 = [(['none'], lambda n: n), (['flip'], lambda n: n), (['shuffle'], lambda n: n),
          (['shuffle', '--no-polarity-flips', '--no-clauses-permutation'], lambda n: n),
          (['or', 2], lambda n: 2 * n), (['xor', 2], lambda n: 2 * n), (['xor', 3], lambda n: 3 * n),
          (['maj', 3], lambda n: 3 * n), (['eq', 2], lambda n: 2 * n), (['neq', 3], lambda n: 3 * n),
          (['one', 3], lambda n: 3 * n), (['atleast', 3, 2], lambda n: 3 * n),
          (['atmost', 3, 1], lambda n: 3 * n), (['exact', 3, 2], lambda n: 3 * n),
          (['anybut', 3, 1], lambda n: 3 * n), (['ite'], lambda n: 3 * n), (['lift', 2], lambda n: 4 * n),
          (['lift', 3], lambda n: 6 * n), (['xorcomp', 5, 2], lambda n: 5), (['majcomp', 6, 3], lambda n: 6),
          (['xorcomp', 'shift', '@N', 4, 0, 1], lambda n: 4)]
    t2 = [t1[1], t1[2], t1[4], t1[5], t1[7], t1[15], t1[16], t1[18], t1[19]]
    k = 0

    def fix(tv, n):
        return [str(n) if a == '@N' else str(a) for a in tv]
    for (bargv, n) in bases:
        for (tv, f) in t1:
            if n == 0 and tv[0] in ('xorcomp', 'majcomp'):
                continue          # the graph constructions need a non empty left side
            k += 1
            out.append({'kind': 'cli', 'tool': 'cnfgen',
                        'argv': [str(a) for a in bargv] + ['-T'] + fix(tv, n),
                        'expects': [n, f(n)], 'rseed': 300 + k})
    for (bargv, n) in bases[:3]:
        for (tv1, f1) in t2:
            for (tv2, f2) in t2:
                k += 1
                n1 = f1(n)
                out.append({'kind': 'cli', 'tool': 'cnfgen',
                            'argv': [str(a) for a in bargv] + ['-T'] + fix(tv1, n) + ['-T'] + fix(tv2, n1),
                            'expects': [n, n1, f2(n1)], 'rseed': 300 + k})
    return out


# ==================================================================== Part B
# alphabet: name -> ('group', builder(F), documented size) | ('clause', ...)
def _opB():
    return scope.mk_bipartite(2, 2, [(1, 1), (2, 1), (2, 2)])


def _opG():
    return scope.mk_graph(3, [(1, 2), (2, 3)])


def _opU():
    """A bipartite graph of the user's own class (BaseBipartiteGraph is the
    documented argument type of the edge groups) whose neighbour lists are in
    insertion order, not sorted."""
    from cnfgen.graphs import BaseBipartiteGraph

    class UserBipartite(BaseBipartiteGraph):
        def __init__(self):
            BaseBipartiteGraph.__init__(self, 3, 3, 'a graph class of the user')
            self.adj = {1: [3, 1], 2: [2], 3: [3, 2, 1]}

        def right_neighbors(self, u):
            return list(self.adj[u])

        def left_neighbors(self, v):
            return [u for u in (3, 1, 2) if v in self.adj[u]]

        def has_edge(self, u, v):
            return v in self.adj.get(u, [])

        def number_of_edges(self):
            return 6
    return UserBipartite()


def _opD():
    return scope.mk_digraph(3, [(1, 2), (1, 3), (2, 3)])


GROUP_OPS = {
    'new_variable': (lambda F: F.new_variable(), 1),
    'new_variable(label)': (lambda F: F.new_variable(label='Z'), 1),
    'new_block(2)': (lambda F: F.new_block(2), 2),
    'new_block(1,2)': (lambda F: F.new_block(1, 2), 2),
    'new_block(0)': (lambda F: F.new_block(0), 0),
    'new_block(2,1,2)': (lambda F: F.new_block(2, 1, 2), 4),
    'new_block(3,0,2)': (lambda F: F.new_block(3, 0, 2), 0),
    'new_combinations(3,2)': (lambda F: F.new_combinations(3, 2), 3),
    'new_combinations_with_replacement(2,2)': (lambda F: F.new_combinations_with_replacement(2, 2), 3),
    'new_permutations(3,2)': (lambda F: F.new_permutations(3, 2), 6),
    'new_words(2,2)': (lambda F: F.new_words(2, 2), 4),
    # more positions than elements: legal when repetitions are allowed
    'new_words(2,3)': (lambda F: F.new_words(2, 3), 8),
    'new_combinations_with_replacement(2,3)': (lambda F: F.new_combinations_with_replacement(2, 3), 4),
    'new_combinations(2,3)': (lambda F: F.new_combinations(2, 3), 0),
    # boundary k = 0: exactly one (empty) index, hence one variable
    'new_permutations(3,0)': (lambda F: F.new_permutations(3, 0), 1),
    'new_combinations(3,0)': (lambda F: F.new_combinations(3, 0), 1),
    'new_words(2,0)': (lambda F: F.new_words(2, 0), 1),
    'new_permutations(3)': (lambda F: F.new_permutations(3), 6),
    'new_mapping(2,2)': (lambda F: F.new_mapping(2, 2), 4),
    'new_mapping(0,3)': (lambda F: F.new_mapping(0, 3), 0),
    'new_sparse_mapping(B)': (lambda F: F.new_sparse_mapping(_opB()), 3),
    'new_sparse_mapping(U)': (lambda F: F.new_sparse_mapping(_opU()), 6),
    'new_bipartite_edges(U)': (lambda F: F.new_bipartite_edges(_opU()), 6),
    'new_binary_mapping(2,3)': (lambda F: F.new_binary_mapping(2, 3), 4),
    'new_binary_mapping(3,1)': (lambda F: F.new_binary_mapping(3, 1), 0),
    'new_graph_edges(G)': (lambda F: F.new_graph_edges(_opG()), 2),
    'new_bipartite_edges(B)': (lambda F: F.new_bipartite_edges(_opB()), 3),
    'new_digraph_edges(D,pred)': (lambda F: F.new_digraph_edges(_opD()), 3),
    'new_digraph_edges(D,succ)': (lambda F: F.new_digraph_edges(_opD(), sortby='succ'), 3),
}
MAPPING_OPS = ('new_mapping(2,2)', 'new_mapping(0,3)', 'new_sparse_mapping(B)', 'new_sparse_mapping(U)',
               'new_binary_mapping(2,3)', 'new_binary_mapping(3,1)')


def _linear_fresh(F, nv):
    if formula_kind(F) == 'CNF':
        F.add_linear([nv + 1, -(nv + 3)], '<=', 0)
    else:
        F.add_constraint([(2, nv + 1), (-3, nv + 3), '<=', 1])


def _force_last(F, nv):
    g = [x for x in F._groups if hasattr(x, 'domain')][-1]
    F.force_complete_mapping(g)
    F.force_injective_mapping(g)
    F.force_functional_mapping(g)


class BatchProblem(Exception):
    pass


def _lazy_batch(F, nv):
    """add_clauses_from over a lazy iterable that creates a variable of the
    same formula between two clauses: the variable must be fresh with respect
    to the clauses of the batch already handed over."""
    got = []

    def gen():
        yield [nv + 1, -(nv + 2)]
        got.append(F.new_variable())
        yield [got[0], -(nv + 1)]
    F.add_clauses_from(gen())
    if got != [nv + 3]:
        raise BatchProblem('a clause of the batch already mentions %d and %d, the variable created by the '
                           'iterable before its next clause got identifier %r' % (nv + 1, nv + 2, got))


def _failing_batch(F, nv):
    """add_clauses_from over an iterable that fails after two clauses, and the
    caller goes on: whatever part of the batch stayed in the formula, the
    formula owns the variables it mentions (either both clauses stayed and
    nv+2 are declared, or none did)."""
    m0 = len(F)

    def gen():
        yield [nv + 1]
        yield [-(nv + 2), nv + 1]
        raise KeyError('the iterable of the caller fails')
    try:
        F.add_clauses_from(gen())
    except KeyError:
        pass
    kept = len(F) - m0
    n1 = F.number_of_variables()
    if (kept, n1) not in ((2, nv + 2), (0, nv)):
        raise BatchProblem('after a batch that failed behind its second clause the formula kept %d of its '
                           'clauses (mentioning %d and %d) and declares %d variables (before: %d)'
                           % (kept, nv + 1, nv + 2, n1, nv))


def _zero_coefficient(F, nv):
    if formula_kind(F) == 'CNF':
        F.add_clauses_from([[nv + 2, -(nv + 1)]])
    else:
        F.add_constraint([(0, nv + 2), (1, nv + 1), '>=', 1])


# name -> (action(F, nv), declared count afterwards(nv) [None: whatever the
# action accepted], needs)
CLAUSE_OP_GROUPS = {
    # groups created by a clause operation: (name, first id(nv), size)
    'add_clauses_from(lazy: clause, new_variable, clause)': lambda nv: (('new_variable', nv + 3, 1),),
}
CLAUSE_OPS = {
    'add_clauses_from(lazy: clause, new_variable, clause)': (_lazy_batch, lambda nv: nv + 3, None),
    'add_clauses_from(iterable failing after 2 clauses)': (_failing_batch, None, None),
    'zero_coefficient_term(nv+2)': (_zero_coefficient, lambda nv: nv + 2, None),
    'add_clause([nv+1])': (lambda F, nv: F.add_clause([nv + 1]), lambda nv: nv + 1, None),
    'add_clause([1,-nv],check=False)': (lambda F, nv: F.add_clause([1, -nv], check=False),
                                        lambda nv: nv, 'nv>=1'),
    'add_clause([-(nv+2),..])': (lambda F, nv: F.add_clause([-(nv + 2), 1 if nv else nv + 1]),
                                 lambda nv: nv + 2, None),
    'add_clause([nv+1,-(nv+2)],check=False);update_variable_number(nv+2)':
        (lambda F, nv: (F.add_clause([nv + 1, -(nv + 2)], check=False), F.update_variable_number(nv + 2)),
         lambda nv: nv + 2, None),
    'update_variable_number(nv+1)': (lambda F, nv: F.update_variable_number(nv + 1), lambda nv: nv + 1, None),
    'update_variable_number(nv-1)': (lambda F, nv: F.update_variable_number(nv - 1), lambda nv: nv, 'nv>=1'),
    'add_parity([nv+1,-(nv+2)],1)': (lambda F, nv: F.add_parity([nv + 1, -(nv + 2)], 1), lambda nv: nv + 2, None),
    'cardinality_eq([nv+2,nv+1,..],1)':
        (lambda F, nv: F.cardinality_eq([nv + 2, nv + 1] + ([-1] if nv else []), 1), lambda nv: nv + 2, None),
    'cardinality_leq((nv+1,nv+2,nv+3),1)':
        (lambda F, nv: F.cardinality_leq((nv + 1, nv + 2, nv + 3), 1), lambda nv: nv + 3, None),
    'linear_fresh(nv+1,nv+3)': (_linear_fresh, lambda nv: nv + 3, None),
    # the same insertions with the literals in other legal representations
    'cardinality_geq(generator(nv+1,-(nv+2)),1)':
        (lambda F, nv: F.cardinality_geq((x for x in (nv + 1, -(nv + 2))), 1), lambda nv: nv + 2, None),
    'cardinality_geq(generator(nv+2,1..),1)':
        (lambda F, nv: F.cardinality_geq((x for x in [nv + 2] + ([1] if nv else [])), 1),
         lambda nv: nv + 2, None),
    'cardinality_eq(range(nv+1,nv+3),1)':
        (lambda F, nv: F.cardinality_eq(range(nv + 1, nv + 3), 1), lambda nv: nv + 2, None),
    'cardinality_neq(generator(nv+1),0)':
        (lambda F, nv: F.cardinality_neq((x for x in [nv + 1]), 0), lambda nv: nv + 1, None),
    'add_clause((nv+1,-(nv+2)))':
        (lambda F, nv: F.add_clause((nv + 1, -(nv + 2))), lambda nv: nv + 2, None),
    'add_parity((nv+1,),0)': (lambda F, nv: F.add_parity((nv + 1,), 0), lambda nv: nv + 1, None),
    'add_clause([])': (lambda F, nv: F.add_clause([]), lambda nv: nv, None),
    # constraints that are trivially true (or false) still mention their variables
    'cardinality_neq([nv+1,nv+2],5)':
        (lambda F, nv: F.cardinality_neq([nv + 1, nv + 2], 5), lambda nv: nv + 2, None),
    'cardinality_neq([nv+1],-1)':
        (lambda F, nv: F.cardinality_neq([nv + 1], -1), lambda nv: nv + 1, None),
    'cardinality_geq([nv+1,-(nv+2)],0)':
        (lambda F, nv: F.cardinality_geq([nv + 1, -(nv + 2)], 0), lambda nv: nv + 2, None),
    'cardinality_leq([nv+2],3)':
        (lambda F, nv: F.cardinality_leq([nv + 2], 3), lambda nv: nv + 2, None),
    'cardinality_eq([nv+1,nv+2],7)':
        (lambda F, nv: F.cardinality_eq([nv + 1, nv + 2], 7), lambda nv: nv + 2, None),
    'force_last_mapping': (_force_last, lambda nv: nv, 'mapping'),
}
ALPHABETS = {
    'core': ['new_variable', 'new_block(1,2)', 'new_block(0)', 'new_sparse_mapping(B)',
             'new_binary_mapping(2,3)', 'add_clause([nv+1])', 'add_clause([1,-nv],check=False)',
             'add_clause([nv+1,-(nv+2)],check=False);update_variable_number(nv+2)',
             'update_variable_number(nv+1)', 'force_last_mapping'],
}
ALPHABETS['full'] = ALPHABETS['core'] + [
    'new_block(2)', 'new_block(2,1,2)', 'new_combinations(3,2)', 'new_mapping(2,2)',
    'new_graph_edges(G)', 'add_clause([-(nv+2),..])', 'add_parity([nv+1,-(nv+2)],1)',
    'cardinality_eq([nv+2,nv+1,..],1)', 'linear_fresh(nv+1,nv+3)', 'add_clause([])',
    'cardinality_geq(generator(nv+1,-(nv+2)),1)', 'cardinality_eq(range(nv+1,nv+3),1)',
    'add_clauses_from(lazy: clause, new_variable, clause)', 'zero_coefficient_term(nv+2)']
ALPHABETS['ext'] = ALPHABETS['full'] + [
    'new_variable(label)', 'new_block(3,0,2)', 'new_combinations_with_replacement(2,2)',
    'new_permutations(3,2)', 'new_words(2,2)', 'new_mapping(0,3)', 'new_binary_mapping(3,1)',
    'new_words(2,3)', 'new_combinations_with_replacement(2,3)', 'new_combinations(2,3)',
    'new_permutations(3,0)', 'new_combinations(3,0)', 'new_words(2,0)', 'new_permutations(3)',
    'new_bipartite_edges(B)', 'new_digraph_edges(D,pred)', 'new_digraph_edges(D,succ)',
    'update_variable_number(nv-1)', 'cardinality_leq((nv+1,nv+2,nv+3),1)',
    'cardinality_geq(generator(nv+2,1..),1)', 'cardinality_neq(generator(nv+1),0)',
    'add_clause((nv+1,-(nv+2)))', 'add_parity((nv+1,),0)',
    'new_sparse_mapping(U)', 'new_bipartite_edges(U)',
    'cardinality_neq([nv+1,nv+2],5)', 'cardinality_neq([nv+1],-1)', 'cardinality_geq([nv+1,-(nv+2)],0)',
    'cardinality_leq([nv+2],3)', 'cardinality_eq([nv+1,nv+2],7)',
    'add_clauses_from(iterable failing after 2 clauses)']


class St:
    """BFS state: the real formula + the reference model"""
    __slots__ = ('F', 'cls', 'nv', 'glog', 'depth', 'alpha', 'prefix')

    def __init__(self, F, cls, alpha, prefix):
        self.F = F
        self.cls = cls
        self.nv = 0               # reference: declared count
        self.glog = ()            # reference: (operation, first id, size) of every group
        self.depth = 0
        self.alpha = alpha
        self.prefix = prefix


def bfs_initial(cls, alpha, prefix=()):
    MonCNF, MonOPB = monitors()
    return St((MonCNF if cls == 'CNF' else MonOPB)(), cls, alpha, tuple(prefix))


def bfs_key(st):
    F = st.F
    data = F._clauses if st.cls == 'CNF' else F._constraints
    return (st.cls, F._numvar, tuple(map(tuple, data)),
            tuple((type(g).__name__, g.ids.start, g.ids.stop) for g in F._groups), st.glog)


def _available(st, name):
    if name in GROUP_OPS:
        return True
    need = CLAUSE_OPS[name][2]
    if need == 'nv>=1':
        return st.nv >= 1
    if need == 'mapping':
        return any(g[0] in MAPPING_OPS for g in st.glog)
    return True


def bfs_operations(st):
    if st.depth < len(st.prefix):
        name = st.prefix[st.depth]
        return [name] if _available(st, name) else []
    return [name for name in ALPHABETS[st.alpha] if _available(st, name)]


def _real_mm(st):
    data = st.F._clauses if st.cls == 'CNF' else st.F._constraints
    return _scan_max(data, 0, st.cls, 0)


BFS_OBS = Counter()


def bfs_apply(st, name):
    F, nv = st.F, st.nv
    problems = []
    mm = _real_mm(st)
    del MON_LOG[:]
    st.depth += 1
    try:
        if name in GROUP_OPS:
            fun, size = GROUP_OPS[name]
            ngroups = len(F._groups)
            res = fun(F)
            if mm:
                BFS_OBS['bfs_group_after_clause_transitions'] += 1
            want = list(range(nv + 1, nv + size + 1))
            if len(F._groups) != ngroups + 1:
                problems.append(('group-not-registered', '%s left %d groups (was %d)'
                                 % (name, len(F._groups), ngroups)))
                ids = []
            else:
                ids = handed_ids(F._groups[-1])
            if name.startswith('new_variable'):
                if type(res) is not int or [res] != want:
                    problems.append(('returned-id', '%s returned %r at declared count %d' % (name, res, nv)))
            if ids and min(ids) <= mm:
                problems.append(('reuses-mentioned-id',
                                 '%s hands out id %d, earlier clauses already mention %d' % (name, min(ids), mm)))
            if sorted(ids) != want:
                problems.append(('handed-ids', '%s at declared count %d hands out %r, documented %r'
                                 % (name, nv, sorted(ids), want)))
            st.nv = nv + size
            st.glog = st.glog + ((name, nv + 1, size),)
        else:
            fun, after, _ = CLAUSE_OPS[name]
            fun(F, nv)
            st.nv = after(nv) if after is not None else F.number_of_variables()
            if name in CLAUSE_OP_GROUPS:
                st.glog = st.glog + CLAUSE_OP_GROUPS[name](nv)
    except Exception as e:          # every operation of the alphabet is documented usage
        problems.append(('exception:' + type(e).__name__, '%s at declared count %d raised %r' % (name, nv, e)))
        return bfs.Step(st, problems, 'op:%s:exception' % name)
    for s, w in _drain_monitor():
        problems.append(('monitor:' + s, w))
    got = F.number_of_variables()
    if got != st.nv:
        problems.append(('declared-count', 'after %s the formula declares %r variables, documented %d '
                                           '(before: %d)' % (name, got, st.nv, nv)))
    return bfs.Step(st, problems, 'op:%s' % name)


def bfs_invariant(st):
    F = st.F
    out = []
    if F.number_of_variables() != st.nv:
        out.append(('declared-count', 'formula declares %r, reference %d' % (F.number_of_variables(), st.nv)))
    out.extend(oracle(F, None))
    # every group still owns exactly the ids it was created with
    real = []
    prev_end = 0
    for g in F._groups:
        ids = list(g.ids)
        real.append((ids[0] if ids else None, len(ids)))
        try:
            h = sorted(handed_ids(g))
        except Exception as e:
            out.append(('group-enumeration:exception:' + type(e).__name__, '%r' % (e,)))
            continue
        if h != ids:
            out.append(('group-hands-out-foreign-ids', '%s with range %r now hands out %r'
                        % (type(g).__name__, g.ids, h)))
        if ids:
            if ids[0] <= prev_end or ids[-1] > st.nv:
                out.append(('groups-overlap-or-outside', '%s owns %d..%d, previous group ends at %d, '
                                                         'declared %d' % (type(g).__name__, ids[0], ids[-1],
                                                                          prev_end, st.nv)))
            prev_end = ids[-1]
    model = [((s if n else None), n) for (_, s, n) in st.glog]
    if real != model:
        out.append(('groups-differ-from-reference', 'groups (first id, size) %r, reference %r' % (real, model)))
    return out


def _clone_group(g, G):
    g2 = copy.copy(g)
    g2.formula = G
    for inner in ('BG', 'VG'):          # nested helper groups of the edge groups
        sub = g2.__dict__.get(inner)
        if sub is not None:
            sub2 = copy.copy(sub)
            sub2.formula = G
            setattr(g2, inner, sub2)
    return g2


def clone_formula(F):
    """Structural copy: own clause list, own header, own group objects bound
    to the copy; the immutable innards of a group (graphs, offset tables) are
    shared.  Cross-checked against copy.deepcopy in every state of depth <= 2
    and, indirectly, by the invariant (every group is re-enumerated in every
    state)."""
    G = object.__new__(type(F))
    for k, v in F.__dict__.items():
        if k in ('_clauses', '_constraints'):
            G.__dict__[k] = [c[:] for c in v]
        elif k == '_groups':
            G.__dict__[k] = [_clone_group(g, G) for g in v]
        elif k == '_formula':
            G.__dict__[k] = G
        elif k == 'header':
            G.__dict__[k] = copy.copy(v)
        else:
            G.__dict__[k] = v
    return G


def bfs_copier(st):
    s2 = St(clone_formula(st.F), st.cls, st.alpha, st.prefix)
    s2.nv = st.nv
    s2.glog = st.glog
    s2.depth = st.depth
    return s2


def _crosscheck_copier(st):
    a = bfs_copier(st)
    b = copy.deepcopy(st)
    if bfs_key(a) != bfs_key(b) or bfs_key(a) != bfs_key(st):
        raise AssertionError('structural clone differs from deepcopy')
    ha = [handed_ids(g) for g in a.F._groups]
    hb = [handed_ids(g) for g in b.F._groups]
    if ha != hb or any(g.formula is not a.F for g in a.F._groups):
        raise AssertionError('structural clone: groups differ from deepcopy')
    saved = Counter(BFS_OBS)
    for x in (a, b):                     # an operation on a copy leaves the original alone
        k = bfs_key(st)
        for name in bfs_operations(x)[:3]:
            bfs_apply(x, name)
        if bfs_key(st) != k:
            raise AssertionError('copy not independent')
    del MON_LOG[:]
    BFS_OBS.clear()
    BFS_OBS.update(saved)


def bfs_violations(rep, cls, alpha, prefix, minlen=0):
    out = []
    for v in rep.violations:
        hist = list(v['history'])
        if len(hist) < minlen:
            continue
        last = hist[-1] if hist else 'initial'
        key = 'bfs:%s:%s:%s' % (cls, last, v['symptom'])
        out.append(_viol(key, '%s [history %s]' % (v['what'], ' ; '.join(hist)),
                         {'kind': 'bfs', 'cls': cls, 'alpha': alpha, 'history': hist}))
    return out


def run_bfs(args, R):
    cls, alpha, depth, prefixes = args['cls'], args['alpha'], args['depth'], args['prefixes']
    monitors()
    for prefix in prefixes:
        P = len(prefix)
        counted = Counter()

        def on_state(st, d, counted=counted, P=P):
            if d <= 2 and d >= P:
                _crosscheck_copier(st)
                counted['copier_crosschecked_states'] += 1
            if d >= P:
                counted['states'] += 1
                if st.nv and len(st.F):
                    counted['nontrivial'] += 1
        st0 = bfs_initial(cls, alpha, prefix)
        BFS_OBS.clear()
        rep = bfs.search([('empty', st0)], bfs_key, bfs_operations, bfs_apply, bfs_invariant,
                         copier=bfs_copier, max_depth=depth, check_parent_untouched='state',
                         on_state=on_state, max_violations=50)
        R.case(sample={'kind': 'bfs', 'cls': cls, 'alpha': alpha, 'prefix': list(prefix), 'depth': depth,
                       'states': rep.states} if R.evals == 0 else None, n=0)
        R.evals += counted['states']
        R.nontrivial += counted['nontrivial']
        R.stats['states'] += counted['states']
        tr = max(0, rep.transitions - max(0, P - 1)) if P else rep.transitions
        R.stats['transitions'] += tr
        R.stats['executions'] += tr
        R.stats['bfs_runs'] += 1
        R.stats['bfs_copier_crosschecked_states'] += counted['copier_crosschecked_states']
        R.outcomes['bfs:max_depth=%d' % rep.max_depth] += 1
        R.stats['bfs_merged'] += rep.merged
        R.stats['bfs_self_loops'] += rep.self_loops
        R.stats['bfs_group_after_clause_transitions'] += BFS_OBS['bfs_group_after_clause_transitions']
        R.outcomes['bfs:%s:%s' % (cls, alpha)] += counted['states']
        R.extend(bfs_violations(rep, cls, alpha, prefix, minlen=P))


def replay_bfs(case):
    monitors()
    st0 = bfs_initial(case['cls'], case.get('alpha', 'ext'))
    st0.alpha = 'ext'
    out = []
    hist = list(case['history'])
    for symptom, what, step in bfs.replay(st0, hist, bfs_key, bfs_apply, bfs_invariant, copier=bfs_copier):
        last = hist[step - 1] if step else 'initial'
        # same key as the search: a state problem is attributed to the last operation
        out.append((symptom, what, last))
    res = []
    for symptom, what, last in out:
        res.append(_viol('bfs:%s:%s:%s' % (case['cls'], last, symptom), '%s [history %s]'
                         % (what, ' ; '.join(hist)), case))
    return res


# ================================================================== controls
def run_controls(args, R):
    """Negative controls, executed in every run: the monitor must notice a
    group that reuses an id mentioned by an earlier (misused, check=False)
    clause, and the oracle must notice hand-made bad formulas.  These are
    caller misuse by construction, never violations; an unnoticed control is a
    harness error (vacuity guard)."""
    MonCNF, MonOPB = monitors()
    for cls, fc in (('CNF', MonCNF), ('OPB', MonOPB)):
        for name, (fun, size) in sorted(GROUP_OPS.items()):
            if size == 0:
                continue
            for pre in ('undeclared', 'declared-later'):
                F = fc()
                del MON_LOG[:]
                if pre == 'undeclared':
                    # clause mentions ids 1 and 3 although nothing is declared
                    F.add_clause([1, -3], check=False)
                    expect = 'reuses-mentioned-id'
                else:
                    # legal history: the caller declares what it mentioned
                    F.add_clause([1, -3], check=False)
                    F.update_variable_number(3)
                    expect = None
                try:
                    fun(F)
                    refused = None
                except Exception as e:
                    refused = e
                logged = _drain_monitor()
                got = [s for s, _ in logged]
                R.stats['executions'] += 1
                if expect is None:
                    # a legal history (the BFS covers it and reports a failure
                    # with a replayable history; here it is only counted)
                    if not got and refused is None:
                        R.stats['control_monitor_silent_on_legal'] += 1
                    else:
                        R.stats['control_monitor_alarm_on_legal_history'] += 1
                elif expect in got or refused is not None:
                    R.stats['control_monitor_detected'] += 1
                elif not (F._groups and handed_ids(F._groups[-1])):
                    # the operation created no variable at all although some are
                    # documented: nothing the monitor could see here; the BFS
                    # reports that as a violation with a replayable history
                    R.stats['control_not_applicable_group_is_empty'] += 1
                else:
                    raise AssertionError('monitor missed the reuse control %s/%s: %r' % (cls, name, got))
        # oracle controls
        bad = []
        F = fc(); F.update_variable_number(2); F.add_clause([1, 3], check=False); bad.append(('literal-range', F, 2))
        F = fc(); F.update_variable_number(2); F.add_clause([1, 0], check=False); bad.append(('literal-range', F, 2))
        F = fc(); F.update_variable_number(2); F.add_clause([True, -2], check=False); bad.append(('literal-type', F, 2))
        F = fc(); F.update_variable_number(2); F.add_clause([1, -2]); bad.append(('nvars', F, 3))
        if cls == 'OPB':
            F = fc(); F.update_variable_number(2)
            F.add_constraint([(1, 1), (1, 2), '>=', 1], check=False)
            F._constraints[-1] = [(-1, 1), (1, 2), '>=', 1]        # planted: not the normal form
            bad.append(('coefficient', F, 2))
        for want, F, n in bad:
            got = [s for s, _ in oracle(F, n)]
            if want in got:
                R.stats['control_oracle_detected'] += 1
            else:
                raise AssertionError('oracle missed control %s: %r' % (want, got))
    del MON_LOG[:]
    # every family exported by cnfgen/__init__.py is in the box, and vice versa
    import cnfgen
    import inspect
    exported = set()
    for name, obj in vars(cnfgen).items():
        mod = getattr(obj, '__module__', '') or ''
        if inspect.isfunction(obj) and mod.startswith('cnfgen.families.'):
            exported.add(name)
    in_box = {v[0] for v in DOC.values()}
    texported = {name for name, obj in vars(cnfgen).items() if inspect.isfunction(obj) and
                 (getattr(obj, '__module__', '') or '').startswith('cnfgen.transformations.')}
    tin_box = {v[0] for v in TDOC.values()}
    missing = sorted((exported - in_box) | (texported - tin_box))
    R.stats['families_exported'] = len(exported)
    R.stats['transformations_exported'] = len(texported)
    if missing:
        raise AssertionError('exported but not in the box of C10: %r' % (missing,))
    R.stats['families_exported_but_not_in_box'] = 0
    R.case(sample={'kind': 'controls'}, nontrivial=True)


# ============================================================ shards / replay
def check_shared_case(case, R=None):
    """Several families built one after the other on the SAME graph objects:
    nothing a family leaves behind on a graph may disturb the next formula."""
    global _SHARED
    _SHARED = {}
    try:
        for (fam, args, cls) in case['seq']:
            vs = check_family_case({'kind': 'fam', 'fam': fam, 'args': args, 'cls': cls}, R)
            if vs:
                out = []
                for v in vs:
                    v = dict(v)
                    v['key'] = 'shared-graph:' + v['key']
                    v['case'] = dict(case)
                    out.append(v)
                return out
    finally:
        _SHARED = None
    return []


def shared_box(tier, seed):
    cs = []
    for b in B_BOX:
        cs.append([['gphp', [b, False, True], 'CNF'], ['subsetcard', [b, False], 'CNF'],
                   ['gphp', [b, True, False], 'OPB']])
        cs.append([['subsetcard', [b, True], 'OPB'], ['gphp', [b, False, False], 'CNF']])
        for d in D_BOX[:3]:
            if dspec_n(d) == bspec(b)[0]:
                cs.append([['sparsestone', [d, b], 'CNF'], ['gphp', [b, False, False], 'CNF'],
                           ['sparsestone', [d, b], 'OPB']])
    for d in D_BOX:
        n = dspec_n(d)
        b = ['bshift', n, 3, [0, 1]] if n >= 1 else None
        if b is not None:
            cs.append([['sparsestone', [d, b], 'CNF'], ['gphp', [b, False, False], 'CNF'],
                       ['subsetcard', [b, False], 'CNF'], ['sparsestone', [d, b], 'CNF']])
        cs.append([['peb', [d], 'CNF'], ['stone', [d, 3], 'CNF'], ['peb', [d], 'OPB']])
    for g in G_BOX:
        if g[0] == 'nx':
            continue
        cs.append([['matching', [g], 'CNF'], ['tseitin', [g, None], 'CNF'], ['kcolor', [g, 3, True], 'CNF'],
                   ['tiling', [g], 'CNF'], ['kclique', [g, 3, True], 'CNF'], ['matching', [g], 'OPB']])
        cs.append([['kcolor', [g, 2, False], 'OPB'], ['tiling', [g], 'OPB'], ['tseitin', [g, None], 'CNF']])
    return [{'kind': 'shared', 'seq': seq} for seq in cs]


def check_case(case, R=None):
    k = case.get('kind')
    if k == 'shared':
        return check_shared_case(case, R)
    if k == 'fam':
        return check_family_case(case, R)
    if k == 'cli':
        return check_cli_case(case, R)
    if k == 'bfs':
        return replay_bfs(case)
    raise KeyError(k)


def replay(case):
    preload()
    return check_case(case)


def run_cases(chunk, R):
    monitors()
    MON_STATS.clear()
    for case in chunk:
        R.nt = False
        vs = check_case(case, R)
        R.case(sample=case if R.evals % 211 == 0 else None, nontrivial=R.nt)
        if case['kind'] == 'cli':
            R.outcomes['cli:' + case['tool']] += 1
        elif case['kind'] == 'shared':
            R.outcomes['shared-graph-sequences'] += 1
        elif case.get('chain'):
            R.outcomes['chain:depth%d' % len(case['chain'])] += 1
            R.stats['chain_depth%d_cases' % len(case['chain'])] += 1
        else:
            R.outcomes['family:%s:%s' % (case['fam'], case['cls'])] += 1
        R.extend(vs)
    for k, v in MON_STATS.items():
        R.stats[k] += v


def _bfs_jobs(tier):
    """(cls, alphabet, depth, prefix length)"""
    if tier == 'thorough':
        return [('full', 5, 2), ('core', 6, 2), ('ext', 4, 1)]
    return [('full', 4, 1), ('core', 5, 1), ('ext', 3, 1)]


def shards(tier, seed):
    out = []
    cases = family_box(tier, seed) + chain_box(tier, seed) + cli_box(tier, seed) + shared_box(tier, seed)
    k = 48 if tier == 'thorough' else 32
    for i, chunk in enumerate(scope.stripe(cases, k)):
        out.append(('a%03d' % i, 'run_cases', chunk))
    out.append(('c000', 'run_controls', {}))
    j = 0
    target = 100000 if tier == 'thorough' else 16000
    roots = []
    for alpha, depth, P in _bfs_jobs(tier):
        names = ALPHABETS[alpha]
        for cls in ('CNF', 'OPB'):
            # root: histories shorter than the prefix length
            roots.append({'cls': cls, 'alpha': alpha, 'depth': P - 1, 'prefixes': [[]]})
            prefixes = [list(p) for p in itertools.product(names, repeat=P)]
            per = max(1, target // (len(names) ** (depth - P)))
            for i in range(0, len(prefixes), per):
                out.append(('b%03d' % j, 'run_bfs_many', [{'cls': cls, 'alpha': alpha, 'depth': depth,
                                                            'prefixes': prefixes[i:i + per]}]))
                j += 1
    out.append(('b%03d' % j, 'run_bfs_many', roots))
    return out


def run_bfs_many(jobs, R):
    for job in jobs:
        run_bfs(job, R)
