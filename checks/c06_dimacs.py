"""C06  DIMACS output round-trips and the DIMACS reader never misreads.

(a) WRITERS.  Every formula of a small CNF scope (engine.scope.cnfs: empty
formula, empty clauses, repeated / opposite literals, declared-but-unused
variables), one small instance of every family exported by cnfgen/__init__.py,
every transformation alone and chains of depth 2, formulas with hand-named
variables -- crossed with a header alphabet (multi-line, CR, non-ASCII, empty,
values that look like problem / comment / clause lines, extra and non-string
keys, emptied header), the four export_header/export_varnames combinations and
the ways of writing (to_dimacs, to_file on StringIO / file name / open file /
stdout) and reading back (StringIO / file name / stdin).  Oracle: the strict
line classification of ref.c06_dimacs_ref (comment | the one problem line with
the TRUE counts | clause line ending in 0, clause lines equal to the clause list
in order) and from_file(to_file(F)) == (number of variables, clause list).

(b) READER.  Every text of <= 4 (5) lines over a 26-line alphabet, every text
of <= 3 lines over an alphabet of lexically exotic lines, and every single
fault (truncation at every byte, line deletion / duplication / swap /
insertion, token substitution / deletion / duplication over a token alphabet)
of the writer outputs of the ~50 smallest formulas, double faults of the
header-less outputs.  Oracle: the outcome of CNF.from_file is ValueError, or a
formula whose variable count and clause list equal the strict reference parse;
any other exception, or acceptance of a text in which the reference finds an
issue (out-of-range literal, wrong clause count, malformed token, ...), is a
violation.  Rejection of a text the reference accepts is counted, not alarmed
(the property allows ValueError), except for cnfgen's own writer output.

(c) CLI.  `cnfgen dimacs <file>` in-process on written files and on a few
malformed texts.
"""
import io
import os
import sys
import shutil
import tempfile
import itertools
import contextlib

from engine import scope, faults
from engine.common import setup_paths
from ref import c06_dimacs_ref as ref

PROPERTY = 'C06'
LEVEL = 'fault_enumeration'
EXHAUSTIVE = True
RULE = ('reader: every text of <=L lines over the line alphabet (L=4 quick, 5 thorough; with and '
        'without final newline), every text of <=3 lines over the exotic-lexing alphabet, every '
        'single fault (every byte prefix, line delete/dup/swap/insert, token subst/delete/dup) of '
        'every writer output of the smallest formulas and every double fault of the header-less '
        'outputs; texts are distinct by construction (deduplicated per base text / per shard); a '
        'text is non-trivial when it contains a well-formed problem line.  writer: every formula '
        'of scope.cnfs(v,m) x 4 export option pairs x rotating header, the catalogue (hand-built '
        'CNFs, one instance per family, transformation chains of depth<=2, named variables) x full '
        'header alphabet x 4 option pairs x write modes x read modes; a writer case is non-trivial '
        'when the formula has at least one clause')
ASSUMPTIONS = [
    'bounded scope: cnfs(1,4), cnfs(2,3), cnfs(3,2) (thorough: cnfs(1,5), cnfs(2,3), cnfs(3,2), '
    'cnfs(4,1)); line language <=4 lines (thorough 5) over 26 lines; problem line + <=5 body lines '
    'over 10 lines (thorough <=6); exotic alphabet <=3 lines; '
    'fault bound 1 on ~50 formulas x 3 renderings (to_dimacs, header, varnames), bound 2 on the '
    'to_dimacs renderings (thorough: also the varnames renderings)',
    'trusted reference: ref/c06_dimacs_ref.py (strict reader and line classifier written from the '
    'DIMACS description: comments start with c, one problem line "p cnf n m", integer tokens '
    '[+-]?[0-9]+ separated by ASCII white space, clauses end at 0 and may span lines, '
    '1<=|literal|<=n, exactly m clauses)',
    'a text is the character stream delivered by a Python text file object (for real files: after '
    'universal-newline translation and UTF-8 decoding)',
    'hand-built formulas are well formed (integer literals inside 1..number_of_variables()); '
    'formulas corrupted through add_clause(check=False) are out of scope',
]
VACUITY = {
    'read:accepted': 1000, 'read:rejected': 1000,
    'write_cases': 2000, 'roundtrips_ok': 2000,
    'fault_texts': 10000, 'double_fault_texts': 10000,
    'cli_calls': 20,
}
ENGINE = 'faults+scope'
TECHNIQUE = ('fault enumeration / bounded exhaustive exploration of the real reader and writer: every '
             'text of a bounded line language, every single (double) fault of real writer outputs, '
             'every formula of a small CNF scope x header alphabet x export options x I/O modes, '
             'against a strict reference reader and line classifier')
LEVEL_TEXT = ('The reader is driven with every text of a bounded line language and with every single '
              'fault (double faults on the header-less renderings) of the writer outputs for the '
              'smallest formulas; the writers are driven with every formula of a small scope and a '
              'catalogue of all families / transformations under a header alphabet and all export '
              'options and I/O modes.  Outcomes are compared with an independent strict DIMACS '
              'reader / line classifier.  Exhaustive inside the bounds; nothing is sampled.')
LEVEL_NOTE = ('Trusted: ref/c06_dimacs_ref.py.  Not covered: texts longer than the line bound, more '
              'than two simultaneous faults, formulas beyond the scope, non-UTF-8 encodings other '
              'than the two byte-level cases, stdout/stdin of real processes.')


def preload():
    setup_paths()
    import cnfgen  # noqa
    import cnfgen.clitools.cnfgen  # noqa


# ============================================================= alphabets ==
LINES = [
    'p cnf 2 1', 'p cnf 2 2', 'p cnf 0 0', 'p cnf 0 1', 'p cnf -1 1', 'p cnf 2',
    'p  cnf 2 1 ', 'p cnf 2 1 extra', 'p dnf 2 1',
    'c x', '', '1 -2 0', '1 2', '0', '3 0', '-3 0', '1 0 2 0', 'x 0', '1.5 0',
    '1 -2 0 ', ' 0', '-1', '\t2\t0', 'c p cnf 9 9', 'cnf', '-2 0 1',
]
# deeper language: one problem line followed by up to 5 (6) body lines
DEEP_FIRST = ['p cnf 2 1', 'p cnf 2 2', 'p cnf 2 3', 'p cnf 3 2', 'p cnf 1 2', 'p cnf 0 1',
              'p cnf 2 0', 'p  cnf 2 2 ']
DEEP_BODY = ['1 -2 0', '1 2', '0', '3 0', '-1', '2 0 -1', 'c x', '', 'p cnf 2 2', 'x 0']
DEEP_BODY_THOROUGH = DEEP_BODY

EXOTIC = [
    'p cnf 10 1', 'p cnf 2 1', 'pcnf 2 1 1', 'p cnf 1_0 1', 'p cnf +2 1', 'p cnf 2 \u0661',
    'P CNF 2 1', '\ufeffp cnf 2 1', 'p\tcnf\t2\t1', 'p cnf 2 1.0', 'p cnf 02 01',
    '1_0 0', '\uff11 0', '+1 0', '-0', '00', '01 0', '1\xa02 0', '1\x1f0', '\xa0c x',
    '1 0\r', '\r', '1 0\x00', '--1 0', '0x1 0', '1e0 0', '1 -2 0', '10 0', '1 \x0c0',
    ' 1 0', '- 1 0', '1 0 c x',
    # characters with a meaning for str.format / % / regular expressions / shells
    '{} 0', '1 {0} 0', 'x_{1} 0', '{x1, x2}', '1 %s 0', '%d 0', '1 $2 0', '1 \\2 0', '[1] 0', '1 * 0',
    # comment lines holding characters that str.splitlines (but not the DIMACS
    # format, whose lines end at a newline) takes for line ends, followed by
    # text that looks like DIMACS
    # markers other tools put at the end of a formula (SATLIB '%' / '0' trailer)
    '%', '% end', '%\t',
    'c a\x0c-1 0', 'c b\x1c1 0', 'c d\x852 0', 'c e\u2028-2 0', 'c\x0bp cnf 2 2', 'c f\u2029x 0',
]

TOKENS = ['0', '1', '-1', '2', '-2', '3', '-3', '9', '-9', 'p', 'cnf', 'c', 'x', '1.5', '-',
          '+1', '00', '1_0', '\uff11', '99999999999999999999']
TOKENS_DOUBLE = ['0', '1', '-2', '3', '-9', 'p', 'c', 'x']

# header alphabet: description value (None = leave the default), extra
# (key, value) pairs, clear = start from an empty header
HEADERS = [
    {},
    {'description': ''},
    {'description': 'plain text'},
    {'description': 'two\nlines'},
    {'description': 'ends with newline\n'},
    {'description': 'a\n1 -2 0'},
    {'description': 'a\np cnf 7 7'},
    {'description': 'a\nc still a comment'},
    {'description': 'a\n\nb'},
    {'description': 'p cnf 3 3'},
    {'description': 'c foo'},
    {'description': 'naïve ünïcödé ∀x∃y 中'},
    {'description': 'tab\tand\x0bvt and\x0cff \x1c fs'},
    {'description': 'a\rb'},
    {'description': 'a\r\nb'},
    {'description': 'u2028 sep \x85 nel'},
    {'description': '0'},
    {'description': ' leading and trailing '},
    {'description': 'long ' + 'x' * 300},
    {'extra': [['p cnf 1 1', 'x']]},
    {'extra': [['key\nnl', 'v']]},
    {'extra': [['', '']]},
    {'extra': [['ключ', 'знач']]},
    {'extra': [[7, 3.5], ['k', None], ['l', ['a', 'b']]]},
    {'extra': [['1 0', '0']]},
    {'clear': True},
    {'clear': True, 'extra': [['only', 'one\nline?']]},
]
OPTS = [[True, False], [False, False], [True, True], [False, True]]
# (write mode, read mode)
IO_MODES = [('stringio', 'stringio'), ('path', 'path'), ('fileobj', 'fileobj'),
            ('stdout', 'stdin'), ('path-explicit-format', 'path'),
            ('path-named-opb', 'path'), ('path-named-dot-tex', 'path')]

NAMESETS = [
    [['v', 'x'], ['v', 'y']],
    [['v', ''], ['v', 'a b']],
    [['v', 'p cnf 1 1'], ['v', 'c']],
    [['v', 'ü∀'], ['b', 2, 'y_{{{}}}']],
    [['v', 'a\nb']],
    [['v', 'a\n1 0'], ['b', 2, 'z\n{}']],
    [['v', 'a\rb'], ['v', 'q']],
    [['v', '0'], ['v', '-1 0']],
    [['v', None], ['u', 2], ['v', 'late']],
    [['b', 2, 'w{}\r']],
    [['v', '{}'], ['v', '%s']],
    [['b', 0, 'empty{}'], ['v', 'after-empty-block']],
]


# ============================================================== formulas ==
def _families():
    import random
    import cnfgen as c
    P3 = lambda: scope.mk_graph(3, [(1, 2), (2, 3)])
    C4 = lambda: scope.mk_graph(4, [(1, 2), (2, 3), (3, 4), (1, 4)])
    K3 = lambda: scope.mk_graph(3, [(1, 2), (2, 3), (1, 3)])
    B22 = lambda: scope.mk_bipartite(2, 2, [(1, 1), (1, 2), (2, 2)])
    B32 = lambda: scope.mk_bipartite(3, 2, [(1, 1), (1, 2), (2, 2), (3, 1)])
    D3 = lambda: scope.mk_digraph(3, [(1, 3), (2, 3)])

    def pitfall():
        random.seed(3)
        return c.PitfallFormula(4, 2, 2, 2, 2)
    return {
        'cliquecoloring': lambda: c.CliqueColoring(3, 2, 2),
        'kcolor': lambda: c.GraphColoringFormula(P3(), 2),
        'kcolor-nonfunctional': lambda: c.GraphColoringFormula(K3(), 2, functional=False),
        'ec': lambda: c.EvenColoringFormula(C4()),
        'count': lambda: c.CountingPrinciple(4, 2),
        'matching': lambda: c.PerfectMatchingPrinciple(C4()),
        'matching-named-graph': lambda: c.PerfectMatchingPrinciple(
            scope.mk_graph(3, [(1, 2)], name='my\ngraph ü')),
        'domset': lambda: c.DominatingSet(P3(), 1),
        'domset-alt': lambda: c.DominatingSet(P3(), 1, alternative=True),
        'tiling': lambda: c.Tiling(P3()),
        'iso': lambda: c.GraphIsomorphism(P3(), K3()),
        'auto': lambda: c.GraphAutomorphism(P3()),
        'op': lambda: c.OrderingPrinciple(3),
        'op-total': lambda: c.OrderingPrinciple(3, total=True),
        'op-smart': lambda: c.OrderingPrinciple(3, smart=True),
        'op-plant': lambda: c.OrderingPrinciple(3, plant=True),
        'op-knuth': lambda: c.OrderingPrinciple(3, knuth=2),
        'gop': lambda: c.GraphOrderingPrinciple(P3()),
        'peb': lambda: c.PebblingFormula(D3()),
        'stone': lambda: c.StoneFormula(D3(), 2),
        'sparsestone': lambda: c.SparseStoneFormula(D3(), B32()),
        'php': lambda: c.PigeonholePrinciple(3, 2),
        'fphp-onto': lambda: c.PigeonholePrinciple(2, 2, functional=True, onto=True),
        'gphp': lambda: c.GraphPigeonholePrinciple(B32()),
        'bphp': lambda: c.BinaryPigeonholePrinciple(3, 2),
        'rphp': lambda: c.RelativizedPigeonholePrinciple(2, 2, 1),
        'ram': lambda: c.RamseyNumber(3, 3, 4),
        'ptn': lambda: c.PythagoreanTriples(5),
        'vdw': lambda: c.VanDerWaerden(5, 2, 2),
        'randkcnf': lambda: c.RandomKCNF(2, 4, 3, seed=7),
        'randkxor': lambda: c.RandomKXOR(2, 4, 2, seed=7),
        'subgraph': lambda: c.SubgraphFormula(C4(), P3()),
        'kclique': lambda: c.CliqueFormula(C4(), 2),
        'bkclique': lambda: c.BinaryCliqueFormula(C4(), 2),
        'ramlb': lambda: c.RamseyWitnessFormula(P3(), 2, 2),
        'subsetcard': lambda: c.SubsetCardinalityFormula(B22()),
        'subsetcard-eq': lambda: c.SubsetCardinalityFormula(B22(), equalities=True),
        'tseitin': lambda: c.TseitinFormula(K3()),
        'tseitin-charges': lambda: c.TseitinFormula(P3(), charges=[1, 0, 1]),
        'pitfall': pitfall,
        'cpls': lambda: c.CPLSFormula(2, 2, 2),
        'php-0-0': lambda: c.PigeonholePrinciple(0, 0),
        'php-1-0': lambda: c.PigeonholePrinciple(1, 0),
        'php-2-1': lambda: c.PigeonholePrinciple(2, 1),
    }


FAMILY_NAMES = [
    'cliquecoloring', 'kcolor', 'kcolor-nonfunctional', 'ec', 'count', 'matching',
    'matching-named-graph', 'domset', 'domset-alt', 'tiling', 'iso', 'auto', 'op', 'op-total',
    'op-smart', 'op-plant', 'op-knuth', 'gop', 'peb', 'stone', 'sparsestone', 'php', 'fphp-onto',
    'gphp', 'bphp', 'rphp', 'ram', 'ptn', 'vdw', 'randkcnf', 'randkxor', 'subgraph', 'kclique',
    'bkclique', 'ramlb', 'subsetcard', 'subsetcard-eq', 'tseitin', 'tseitin-charges', 'pitfall',
    'cpls', 'php-0-0', 'php-1-0', 'php-2-1',
]


def _compression_graph(F):
    n = F.number_of_variables()
    return scope.mk_bipartite(n, 2, [(i, 1 + i % 2) for i in range(1, n + 1)] +
                              ([(1, 2)] if n >= 1 else []))


def _transforms():
    import random
    import cnfgen as c

    def shuffle(F):
        random.seed(11)
        return c.Shuffle(F)
    return {
        'flip': lambda F: c.FlipPolarity(F),
        'xor2': lambda F: c.XorSubstitution(F, 2),
        'or2': lambda F: c.OrSubstitution(F, 2),
        'one2': lambda F: c.ExactlyOneSubstitution(F, 2),
        'maj3': lambda F: c.MajoritySubstitution(F, 3),
        'eq2': lambda F: c.AllEqualSubstitution(F, 2),
        'neq2': lambda F: c.NotAllEqualSubstitution(F, 2),
        'ite': lambda F: c.IfThenElseSubstitution(F),
        'lift2': lambda F: c.FormulaLifting(F, 2),
        'atleast': lambda F: c.AtLeastKSubstitution(F, 2, 1),
        'atmost': lambda F: c.AtMostKSubstitution(F, 2, 1),
        'exact': lambda F: c.ExactlyKSubstitution(F, 2, 1),
        'anybut': lambda F: c.AnythingButKSubstitution(F, 2, 1),
        'xorcomp': lambda F: c.VariableCompression(F, _compression_graph(F), 'xor'),
        'majcomp': lambda F: c.VariableCompression(F, _compression_graph(F), 'maj'),
        'shuffle': shuffle,
        'shuffle-reverse': lambda F: c.Shuffle(F, polarity_flips='fixed',
                                               variables_permutation='fixed',
                                               clauses_permutation=list(reversed(range(len(F))))),
    }


TRANSFORM_NAMES = ['flip', 'xor2', 'or2', 'one2', 'maj3', 'eq2', 'neq2', 'ite', 'lift2', 'atleast',
                   'atmost', 'exact', 'anybut', 'xorcomp', 'majcomp', 'shuffle', 'shuffle-reverse']
CHAIN_BASES = [
    {'src': 'scope', 'n': 3, 'clauses': [[1, -2, 3], [-1, 2], [-3], []]},
    {'src': 'scope', 'n': 2, 'clauses': []},
    {'src': 'family', 'name': 'php-2-1'},
]
CHAIN2_BASE = {'src': 'scope', 'n': 2, 'clauses': [[1, -2], [-1], []]}


def build_formula(rec):
    """Formula of a JSON recipe."""
    from cnfgen.formula.cnf import CNF
    src = rec['src']
    if src == 'scope':
        return scope.mk_cnf(rec['n'], [tuple(c) for c in rec['clauses']])
    if src == 'ctor':
        return CNF([list(c) for c in rec['clauses']])
    if src == 'wide':
        w = rec['w']
        return scope.mk_cnf(rec['n'], [tuple(v if v % 3 else -v for v in range(1, w + 1)),
                                       tuple(-v for v in range(w, 0, -1)), (rec['n'],),
                                       tuple(range(2, w + 2))])
    if src == 'named':
        F = CNF()
        for spec in rec['vars']:
            if spec[0] == 'v':
                F.new_variable(label=spec[1])
            elif spec[0] == 'b':
                F.new_block(spec[1], label=spec[2])
            elif spec[0] == 'u':
                F.update_variable_number(F.number_of_variables() + spec[1])
        for cl in rec['clauses']:
            F.add_clause(list(cl))
        return F
    if src == 'family':
        return _families()[rec['name']]()
    if src == 'chain':
        F = build_formula(rec['base'])
        T = _transforms()
        for step in rec['steps']:
            F = T[step](F)
        return F
    raise KeyError(src)


def apply_header(F, h):
    if h.get('clear'):
        F.header.clear()
    if 'description' in h:
        F.header['description'] = h['description']
    for k, v in h.get('extra', []):
        F.header[k] = v


HISTORY_OPS = ['to_dimacs', 'to_file', 'to_file_hv', 'to_latex', 'new_variable', 'new_block',
               'grow', 'add_clause', 'header']


def apply_history(F, ops, tmp):
    for op in ops:
        n = F.number_of_variables()
        if op == 'to_dimacs':
            F.to_dimacs()
        elif op == 'to_file':
            F.to_file(io.StringIO(), export_header=False, export_varnames=False)
        elif op == 'to_file_hv':
            F.to_file(io.StringIO(), export_header=True, export_varnames=True)
        elif op == 'to_latex':
            F.to_latex()
        elif op == 'new_variable':
            F.new_variable(label='h%d' % (n + 1))
        elif op == 'new_block':
            F.new_block(2, label='hb_{}')
        elif op == 'grow':
            F.update_variable_number(n + 2)
        elif op == 'add_clause':
            F.add_clause([1, -n] if n >= 2 else ([1] if n == 1 else []))
        elif op == 'header':
            F.header['note %d' % len(F.header)] = 'added later'
        else:
            raise KeyError(op)


def history_cases(tier):
    """Every history of <= 3 (4) operations that renders at least once and
    changes the object afterwards, on four start formulas."""
    depth = 4 if tier == 'thorough' else 3
    renders = ('to_dimacs', 'to_file', 'to_file_hv', 'to_latex')
    bases = [{'src': 'scope', 'n': 0, 'clauses': []},
             {'src': 'scope', 'n': 2, 'clauses': [[1, -2], [2]]},
             {'src': 'named', 'vars': NAMESETS[0], 'clauses': [[1, -2]]},
             {'src': 'family', 'name': 'php-2-1'}]
    out = []
    for L in range(2, depth + 1):
        for ops in itertools.product(HISTORY_OPS, repeat=L):
            first_render = next((i for i, o in enumerate(ops) if o in renders), None)
            if first_render is None or all(o in renders for o in ops[first_render:]):
                continue
            for bi, base in enumerate(bases):
                k = (len(out) + bi) % 4
                out.append({'kind': 'write', 'formula': base, 'header': {}, 'history': list(ops),
                            'opts': OPTS[k],
                            'wmode': ('to_dimacs', 'stringio', 'path')[len(out) % 3],
                            'rmode': 'stringio'})
    return out


def big_text(shift, nclauses):
    """A valid text of more than 2^20 characters.  All clause lines have the
    same length (12), so that with the 12 values of `shift` (length of the
    first comment line) every kind of position -- inside a number, on the
    blank between two tokens, on the line break -- falls on every multiple of
    every power of two below the length of the text, whatever block size a
    reader uses."""
    clauses = []
    lines = ['c' + 'x' * shift, 'p cnf 99 %d' % nclauses]
    for i in range(nclauses):
        a, b, c = 10 + i % 90, 10 + (i * 7) % 90, 10 + (i * 13 + 5) % 90
        cl = [a, -b, c]
        clauses.append(cl)
        lines.append('%d %d %d 0' % tuple(cl))       # 2+1+3+1+2+1+1 = 11 chars + newline
    return '\n'.join(lines) + '\n', clauses


def check_bigtext(case, tmp, R=None):
    text, clauses = big_text(case['shift'], case['nclauses'])
    out, _ = read_text(text, case['mode'], tmp)
    if R is not None:
        R.stats['big_texts_read'] += 1
        R.stats['big_text_characters'] += len(text)
    if out[0] != 'ok':
        return [{'key': 'reader:big-text:rejected', 'case': case,
                 'what': 'a valid text of %d characters is refused: %r' % (len(text), out[1:])}]
    if out[1] != 99 or out[2] != clauses:
        k = next((i for i, (x, y) in enumerate(zip(out[2], clauses)) if x != y),
                 min(len(out[2]), len(clauses)))
        return [{'key': 'reader:big-text:content', 'case': case,
                 'what': 'text of %d characters: %d variables, %d clauses read; clause #%d is %r, '
                         'written %r' % (len(text), out[1], len(out[2]), k, out[2][k:k + 1],
                                         clauses[k:k + 1])}]
    return []


def run_bigtext(args, R):
    """Texts beyond any reader block size (see big_text)."""
    preload()
    tmp, rep = Tmp(), Reporter(R)
    try:
        for shift in args['shifts']:
            for rmode in args['modes']:
                case = {'kind': 'bigtext', 'shift': shift, 'nclauses': args['nclauses'], 'mode': rmode}
                R.nt = True
                vs = check_bigtext(case, tmp, R)
                R.case(sample=case if shift == 0 else None, nontrivial=True)
                rep.extend(vs)
    finally:
        tmp.close()


def run_history(args, R):
    preload()
    tmp, rep = Tmp(), Reporter(R)
    try:
        for case in args['cases']:
            _write_case(R, rep, tmp, case, sample_every=499)
    finally:
        tmp.close()


def expected_content(rec, F):
    """(n, clauses) the formula holds.  For scope recipes it is computed from
    the recipe (independent of the CNF object); otherwise from the object's
    public accessors, and None if the object is not a well-formed formula
    (not this property's business)."""
    if rec['src'] in ('scope', 'ctor'):
        cls = [list(c) for c in rec['clauses']]
        n = max([rec.get('n', 0)] + [abs(l) for c in cls for l in c])
        return n, cls
    n = F.number_of_variables()
    cls = [list(c) for c in F]
    if type(n) is not int or len(cls) != F.number_of_clauses():
        return None
    for c in cls:
        for l in c:
            if type(l) is not int or not 1 <= abs(l) <= n:
                return None
    return n, cls


def writer_cause(F, export_header, export_varnames):
    """Which known root cause (line break characters in header / names) is
    present in what the writer is asked to write."""
    causes = []
    if export_header:
        parts = []
        for k in F.header:
            parts.append('{}'.format(k))
            parts.append('{}'.format(F.header[k]))
        if any('\n' in p for p in parts):
            causes.append('header-newline')
        elif any('\r' in p for p in parts):
            causes.append('header-cr')
    if export_varnames:
        try:
            labels = ['{}'.format(x) for x in F.all_variable_labels()]
        except Exception:
            labels = []
        if any('\n' in p for p in labels):
            causes.append('varname-newline')
        elif any('\r' in p for p in labels):
            causes.append('varname-cr')
    return '+'.join(causes) if causes else 'plain'


# ================================================================== I/O ==
class Tmp:
    """Private temporary directory of one shard / replay."""

    def __init__(self):
        self.dir = None
        self.k = 0

    def path(self, suffix='.cnf'):
        if self.dir is None:
            self.dir = tempfile.mkdtemp(prefix='c06_')
        self.k += 1
        return os.path.join(self.dir, 'f%d%s' % (self.k % 8, suffix))

    def close(self):
        if self.dir is not None:
            shutil.rmtree(self.dir, ignore_errors=True)
            self.dir = None


def write_formula(F, wmode, export_header, export_varnames, tmp):
    """Returns (text, path or None).  text is the exact character content."""
    kw = dict(export_header=export_header, export_varnames=export_varnames)
    if wmode == 'to_dimacs':
        return F.to_dimacs(), None
    if wmode == 'stringio':
        s = io.StringIO()
        F.to_file(s, **kw)
        return s.getvalue(), None
    if wmode in ('path', 'path-explicit-format'):
        if wmode == 'path':
            path = tmp.path('.cnf')
            F.to_file(path, **kw)
        else:
            path = tmp.path('.opb')     # the explicit format wins over the extension
            F.to_file(path, fileformat='dimacs', **kw)
        with open(path, 'r', encoding='utf-8', newline='') as f:
            return f.read(), path
    if wmode in ('path-named-opb', 'path-named-dot-tex'):
        # names WITHOUT an extension that spell one: 'opb', '.tex'
        tmp.path('.cnf')
        path = os.path.join(tmp.dir, 'opb' if wmode == 'path-named-opb' else '.tex')
        F.to_file(path, **kw)
        with open(path, 'r', encoding='utf-8', newline='') as f:
            return f.read(), path
    if wmode == 'fileobj':
        path = tmp.path('.cnf')
        with open(path, 'w', encoding='utf-8', newline='') as f:
            F.to_file(f, **kw)
        with open(path, 'r', encoding='utf-8', newline='') as f:
            return f.read(), path
    if wmode == 'stdout':
        s = io.StringIO()
        with contextlib.redirect_stdout(s):
            F.to_file(None, **kw)
        return s.getvalue(), None
    raise KeyError(wmode)


def read_text(text, rmode, tmp, path=None):
    """Outcome of the reader under test on a text:
    ('ok', n, clauses) | ('ValueError', msg) | ('exception', TypeName, msg).
    Second component of the result: the text as delivered to the parser."""
    from cnfgen.formula.cnf import CNF
    delivered = text
    try:
        if rmode == 'stringio':
            F = CNF.from_file(io.StringIO(text))
        elif rmode == 'path':
            if path is None:
                path = tmp.path('.cnf')
                with open(path, 'w', encoding='utf-8', newline='') as f:
                    f.write(text)
            delivered = ref.universal_newlines(text)
            F = CNF.from_file(path)
        elif rmode == 'fileobj':
            if path is None:
                path = tmp.path('.cnf')
                with open(path, 'w', encoding='utf-8', newline='') as f:
                    f.write(text)
            delivered = ref.universal_newlines(text)
            with open(path, 'r', encoding='utf-8') as f:
                F = CNF.from_file(f)
        elif rmode in ('fdfile', 'tmpfile'):
            # file objects whose .name is not a string (a descriptor number):
            # os.fdopen, tempfile.TemporaryFile, pipes
            delivered = ref.universal_newlines(text)
            if rmode == 'fdfile':
                if path is None:
                    path = tmp.path('.cnf')
                    with open(path, 'w', encoding='utf-8', newline='') as f:
                        f.write(text)
                with os.fdopen(os.open(path, os.O_RDONLY), 'r', encoding='utf-8') as f:
                    F = CNF.from_file(f)
            else:
                with tempfile.TemporaryFile('w+', encoding='utf-8', newline='') as f:
                    f.write(text)
                    f.seek(0)
                    F = CNF.from_file(f)
        elif rmode == 'tty':
            # a stream that says it is a terminal (typed input)
            F = CNF.from_file(_TtyLike(text))
        elif rmode == 'stdin-tty':
            old = sys.stdin
            sys.stdin = _TtyLike(text)
            try:
                F = CNF.from_file()
            finally:
                sys.stdin = old
        elif rmode == 'stdin':
            old = sys.stdin
            sys.stdin = io.StringIO(text)
            try:
                F = CNF.from_file()
            finally:
                sys.stdin = old
        else:
            raise KeyError(rmode)
    except ValueError as e:
        return ('ValueError', str(e)[:100]), delivered
    except Exception as e:
        return ('exception', type(e).__name__, str(e)[:100]), delivered
    return formula_outcome(F), delivered


class _TtyLike(io.StringIO):
    def isatty(self):
        return True


def formula_outcome(F):
    try:
        n = F.number_of_variables()
        cls = [list(c) for c in F.clauses()]
        if [list(c) for c in F] != cls or len(F) != len(cls) or F.number_of_clauses() != len(cls):
            return ('exception', 'InconsistentFormula', 'iteration and clauses() disagree')
        if type(n) is not int or any(type(l) is not int for c in cls for l in c):
            return ('exception', 'InconsistentFormula', 'non-integer content')
    except Exception as e:
        return ('exception', type(e).__name__, 'while inspecting the result: ' + str(e)[:80])
    return ('ok', n, cls)


# ======================================================== reader oracle ==
def judge_read(text, rmode, tmp, case, own_output=False, path=None):
    """Violations of the reader half of the property on one text, plus the
    (verdict, primary issue) pair for the statistics."""
    out, delivered = read_text(text, rmode, tmp, path)
    P = ref.parse(delivered)
    viol = []

    def bad(key, what):
        viol.append({'key': key, 'what': what, 'case': case})

    if out[0] == 'exception':
        bad('reader:exception:%s' % out[1],
            'from_file raised %s(%r) instead of ValueError on text %r (reference: %s)' %
            (out[1], out[2], text[:80], 'well formed' if P.ok else P.primary()))
    elif out[0] == 'ok':
        if not P.ok:
            bad('reader:accepted:%s' % P.primary(),
                'from_file accepted text %r as n=%d clauses=%r, but the text is not DIMACS CNF: %s'
                % (text[:80], out[1], out[2][:6], ', '.join(P.issues)))
        else:
            if out[1] != P.n:
                bad('reader:misread:nvars', 'text %r declares %d variables, formula has %d' %
                    (text[:80], P.n, out[1]))
            if out[2] != P.clauses:
                bad('reader:misread:clauses', 'text %r contains clauses %r, formula has %r' %
                    (text[:80], P.clauses[:8], out[2][:8]))
    else:   # ValueError
        if P.ok and own_output:
            bad('reader:rejects-own-output', 'from_file raised ValueError(%r) on the writer output %r'
                % (out[1], text[:120]))
    return viol, out, P


def tally_read(R, out, P):
    if out[0] == 'ok':
        R.outcomes['read:accepted'] += 1
    elif out[0] == 'ValueError':
        R.outcomes['read:rejected'] += 1
        if P.ok:
            R.stats['rejected_though_reference_accepts'] += 1
    else:
        R.outcomes['read:other-exception'] += 1
    R.outcomes['reference:' + ('well-formed' if P.ok else P.primary())] += 1


class Reporter:
    """At most two violations per key and shard are handed to R (the runner
    caps the list per shard; a frequent known finding must never crowd out a
    fresh violation)."""

    def __init__(self, R):
        self.R = R
        self.seen = {}

    def extend(self, viol):
        for v in viol:
            self.R.stats['violating_observations'] += 1
            k = self.seen.get(v['key'], 0)
            self.seen[v['key']] = k + 1
            if k < 2:
                self.R.bad(v['key'], v['what'], v['case'])


# ======================================================== writer oracle ==
def check_write(case, tmp, R=None):
    """One writer case: {'kind':'write','formula':rec,'header':h,'opts':[h,v],
    'wmode':..,'rmode':..}."""
    rec, h = case['formula'], case.get('header', {})
    eh, ev = case['opts']
    wmode, rmode = case['wmode'], case['rmode']
    viol = []
    F = build_formula(rec)
    apply_header(F, h)
    if case.get('history'):
        # the object has a past: it was rendered / grown / rendered again
        # before the rendering under test (what is rendered last must be the
        # formula as it is now)
        apply_history(F, case['history'], tmp)
        exp = expected_content({'src': 'object'}, F)
        if R is not None:
            R.stats['write_cases_with_history'] += 1
    else:
        exp = expected_content(rec, F)
    if exp is None:
        if R is not None:
            R.stats['skipped_malformed_formula_object'] += 1
        return viol
    n, cls = exp
    cause = writer_cause(F, eh, ev)
    if '+' in cause:
        # line breaks both in the header and in the names: nothing new, and
        # the two root causes must keep separate keys
        if R is not None:
            R.stats['skipped_combined_linebreak_causes'] += 1
        return viol
    tag = 'writer:' + cause

    def bad(sym, what):
        viol.append({'key': '%s:%s' % (tag, sym), 'what': what, 'case': case})

    try:
        text, path = write_formula(F, wmode, eh, ev, tmp)
    except Exception as e:
        bad('exception:' + type(e).__name__, 'writing (%s, header=%s, varnames=%s) raised %r' %
            (wmode, eh, ev, e))
        return viol
    if R is not None:
        R.stats['write_cases'] += 1
        R.stats['bytes_written'] += len(text)
        R.nt = len(cls) > 0
    # ---- strict line classification
    O = ref.classify_output(text)
    structural = list(O.problems)
    if not structural:
        if O.n != n:
            structural.append(('problem-line-nvars', 'problem line says %d variables, formula has %d'
                               % (O.n, n)))
        if O.m != len(cls):
            structural.append(('problem-line-nclauses', 'problem line says %d clauses, formula has %d'
                               % (O.m, len(cls))))
        if O.clauses != cls:
            structural.append(('clause-lines', 'clause lines %r differ from the clauses %r' %
                               (O.clauses[:8], cls[:8])))
    if structural:
        if cause == 'plain':
            for sym, det in structural:
                bad(sym, '%s in output %r' % (det or sym, text[:160]))
        else:
            bad('line-structure', '%s; output %r' %
                ('; '.join('%s %s' % sd for sd in structural[:3]), text[:200]))
    elif R is not None:
        R.stats['outputs_strictly_classified'] += 1
        R.stats['comment_lines_seen'] += O.ncomments
    # ---- round trip through the reader under test (and the reference reader)
    out, delivered = read_text(text, rmode, tmp, path if rmode in ('path', 'fileobj') else None)
    sym = None
    if out[0] == 'ok':
        if out[1] != n:
            sym, det = 'nvars', 'read back %d variables, formula has %d' % (out[1], n)
        elif out[2] != cls:
            sym, det = 'clauses', 'read back clauses %r, formula has %r' % (out[2][:8], cls[:8])
    else:
        sym, det = out[0] if out[0] != 'exception' else out[1], 'reading back raised %r' % (out[1:],)
    if sym is not None:
        if cause == 'plain':
            bad('roundtrip:' + sym, '%s; written %r' % (det, text[:160]))
        else:
            bad('roundtrip', '%s; written by %s/read by %s: %r' % (det, wmode, rmode, text[:200]))
    elif R is not None:
        R.stats['roundtrips_ok'] += 1
    if cause == 'plain':
        P = ref.parse(delivered)
        if not P.ok:
            bad('reference-reader:' + P.primary(), 'the strict reference reader finds %s in %r' %
                (P.issues, text[:160]))
        elif (P.n, P.clauses) != (n, cls):
            bad('reference-reader:content', 'the strict reference reader reads (%d, %r) from %r' %
                (P.n, P.clauses[:8], text[:160]))
    return viol


# ============================================================ CLI oracle ==
def run_cli(argv, mode, stdin_text=''):
    from cnfgen.clitools.cnfgen import cli
    from cnfgen.clitools.cmdline import CLIError
    import cnfgen.clitools.msg as msg
    if hasattr(msg, '_prefix'):
        msg._prefix = ''
    so, se = io.StringIO(), io.StringIO()
    old_stdin = sys.stdin
    sys.stdin = io.StringIO(stdin_text)
    try:
        with contextlib.redirect_stdout(so), contextlib.redirect_stderr(se):
            res = cli(argv, mode=mode)
    except CLIError as e:
        return ('CLIError', str(e)[:120]), so.getvalue()
    except ValueError as e:
        return ('ValueError', str(e)[:120]), so.getvalue()
    except SystemExit as e:
        return ('exception', 'SystemExit', str(e.code)), so.getvalue()
    except Exception as e:
        return ('exception', type(e).__name__, str(e)[:120]), so.getvalue()
    finally:
        sys.stdin = old_stdin
        if hasattr(msg, '_prefix'):
            msg._prefix = ''
    return ('ok', res), so.getvalue()


def check_cli(case, tmp, R=None):
    viol = []

    def bad(key, what):
        viol.append({'key': key, 'what': what, 'case': case})

    path = tmp.path('.cnf')
    if case['kind'] == 'cli-read':
        text = case['text']
        with open(path, 'w', encoding='ascii', newline='') as f:
            f.write(text)
        if case.get('stdin'):
            P = ref.parse(text)
            out, _ = run_cli(['cnfgen', '-q', 'dimacs'], 'formula', stdin_text=text)
        else:
            P = ref.parse(ref.universal_newlines(text))
            out, _ = run_cli(['cnfgen', '-q', 'dimacs', path], 'formula')
        if R is not None:
            R.stats['cli_calls'] += 1
        if out[0] == 'ok':
            fo = formula_outcome(out[1])
            if R is not None:
                R.outcomes['cli:accepted'] += 1
            if fo[0] != 'ok':
                bad('cli-dimacs:result:' + fo[1], fo[2])
            elif not P.ok:
                bad('cli-dimacs:accepted:' + P.primary(), '`cnfgen dimacs` accepted %r as %r: %s' %
                    (text[:80], fo[1:], P.issues))
            elif (fo[1], fo[2]) != (P.n, P.clauses):
                bad('cli-dimacs:misread', '`cnfgen dimacs` read %r as %r, text says (%d, %r)' %
                    (text[:80], fo[1:], P.n, P.clauses[:8]))
        elif out[0] in ('CLIError', 'ValueError'):
            if R is not None:
                R.outcomes['cli:rejected'] += 1
        else:
            bad('cli-dimacs:exception:' + out[1], '`cnfgen dimacs` on %r ended with %s %r' %
                (text[:80], out[1], out[2]))
        return viol
    # cli-roundtrip: write the formula with the library, pipe it through
    # `cnfgen [flags] dimacs file`, classify and re-read the printed text
    rec = case['formula']
    F = build_formula(rec)
    exp = expected_content(rec, F)
    if exp is None:
        return viol
    n, cls = exp
    F.to_file(path, export_header=case['opts'][0], export_varnames=case['opts'][1])
    out, printed = run_cli(['cnfgen'] + list(case['flags']) + ['dimacs', path], 'output')
    printed = printed.replace(path, '<file>')     # keep reports free of the private temp name
    if R is not None:
        R.stats['cli_calls'] += 1
    if out[0] != 'ok':
        bad('cli-dimacs:own-output:' + (out[1] if out[0] == 'exception' else out[0]),
            '`cnfgen %s dimacs` on a file written by to_file ended with %r' %
            (' '.join(case['flags']), out[1:]))
        return viol
    if R is not None:
        R.outcomes['cli:roundtrip'] += 1
    O = ref.classify_output(printed)
    for sym, det in O.problems:
        bad('cli-dimacs:output:' + sym, '%s in %r' % (det or sym, printed[:160]))
    if not O.problems and (O.n, O.m, O.clauses) != (n, len(cls), cls):
        bad('cli-dimacs:output:content', 'printed (%r, %r, %r) for formula (%d, %r)' %
            (O.n, O.m, O.clauses[:8], n, cls[:8]))
    return viol


# ================================================================ replay ==
def replay(case):
    preload()
    tmp = Tmp()
    try:
        kind = case['kind']
        if kind == 'read':
            return judge_read(case['text'], case.get('mode', 'stringio'), tmp, case,
                              own_output=case.get('own', False))[0]
        if kind == 'read-bytes':
            return check_bytes(case, tmp)
        if kind == 'write':
            return check_write(case, tmp)
        if kind in ('cli-read', 'cli-roundtrip'):
            return check_cli(case, tmp)
        if kind == 'bigtext':
            return check_bigtext(case, tmp)
        raise KeyError(kind)
    finally:
        tmp.close()


def check_bytes(case, tmp):
    """A file that is not UTF-8 text: the reader must still answer ValueError
    (UnicodeDecodeError is a ValueError) or a correct formula."""
    from cnfgen.formula.cnf import CNF
    data = bytes.fromhex(case['hex'])
    path = tmp.path('.cnf')
    with open(path, 'wb') as f:
        f.write(data)
    try:
        F = CNF.from_file(path)
    except ValueError:
        return []
    except Exception as e:
        return [{'key': 'reader:bytes:exception:' + type(e).__name__,
                 'what': 'from_file on bytes %r raised %r' % (data[:40], e), 'case': case}]
    try:
        text = data.decode('utf-8')
    except UnicodeDecodeError:
        return [{'key': 'reader:bytes:accepted-undecodable', 'what': 'bytes %r accepted as %r' %
                 (data[:40], formula_outcome(F)), 'case': case}]
    P = ref.parse(ref.universal_newlines(text))
    fo = formula_outcome(F)
    if not P.ok or fo != ('ok', P.n, P.clauses):
        return [{'key': 'reader:bytes:misread', 'what': 'bytes %r read as %r' % (data[:40], fo),
                 'case': case}]
    return []


# ================================================================ shards ==
def small_formulas():
    """The ~50 smallest formulas whose renderings are fault-enumerated."""
    recs = []
    seen = set()

    def add(rec):
        key = repr(sorted(rec.items()))
        if key not in seen:
            seen.add(key)
            recs.append(rec)
    for n, cls in scope.small_cnf_catalogue():
        add({'src': 'scope', 'n': n, 'clauses': [list(c) for c in cls]})
    for n, cls in scope.cnfs(2, 1):
        add({'src': 'scope', 'n': n, 'clauses': [list(c) for c in cls]})
    for name in ('php-2-1', 'php-1-0', 'peb', 'ptn', 'tseitin-charges', 'subsetcard'):
        add({'src': 'family', 'name': name})
    add({'src': 'chain', 'base': CHAIN_BASES[1], 'steps': ['xor2']})
    add({'src': 'named', 'vars': NAMESETS[0], 'clauses': [[1, -2]]})
    return recs


def writer_scope(tier):
    boxes = [(1, 4), (2, 3), (3, 2)] if tier != 'thorough' else [(1, 5), (2, 3), (3, 2), (4, 1)]
    seen = set()
    for v, m in boxes:
        for n, cls in scope.cnfs(v, m):
            key = (n, tuple(cls))
            if key in seen:
                continue
            seen.add(key)
            yield {'src': 'scope', 'n': n, 'clauses': [list(c) for c in cls]}


def catalogue(tier, seed):
    """Formulas crossed with the FULL header alphabet and all I/O modes."""
    cat = []
    for n, cls in scope.small_cnf_catalogue():
        cat.append({'src': 'scope', 'n': n, 'clauses': [list(c) for c in cls]})
    cat.append({'src': 'ctor', 'clauses': [[1, 2, -3], [-2, 4], []]})
    # sizes around typical buffer/block sizes of a writer or reader: a writer
    # that flushes in blocks must not repeat or drop clauses
    for m in (1023, 1024, 1025, 4097):
        cls = []
        for i in range(m):
            lits = [(j + 1) if (i >> j) & 1 else -(j + 1) for j in range(13)]
            cls.append([l for j, l in enumerate(lits) if (i + j) % 4 != 0 or j == i % 13])
        cat.append({'src': 'scope', 'n': 13, 'clauses': cls})
    # very wide clauses (a writer that emits a clause in pieces, a reader with a
    # bounded line buffer): one clause over every variable, and its neighbours
    for w in (119, 120, 121, 255, 256, 1499, 1500, 1501, 3001):
        cat.append({'src': 'wide', 'n': w + 1, 'w': w})
    cat.append({'src': 'ctor', 'clauses': []})
    for name in FAMILY_NAMES:
        cat.append({'src': 'family', 'name': name})
    for base in CHAIN_BASES:
        for t in TRANSFORM_NAMES:
            cat.append({'src': 'chain', 'base': base, 'steps': [t]})
    # chains of depth 2: all ordered pairs on the first base (thorough), a
    # fixed diagonal band in the quick tier
    for i, t1 in enumerate(TRANSFORM_NAMES):
        for j, t2 in enumerate(TRANSFORM_NAMES):
            if tier == 'thorough' or (j - i) % len(TRANSFORM_NAMES) in (0, 1, 5):
                cat.append({'src': 'chain', 'base': CHAIN2_BASE, 'steps': [t1, t2]})
    for names in NAMESETS:
        F_vars = sum(1 if s[0] == 'v' else s[1] for s in names)
        cls = [[1], [-1, F_vars], []] if F_vars >= 1 else [[]]
        cat.append({'src': 'named', 'vars': names, 'clauses': cls})
    # VERIF_SEED rotates two extra mid-size instances (never the core)
    extra = [{'src': 'chain', 'base': {'src': 'family', 'name': 'php'}, 'steps': ['xor2', 'shuffle']},
             {'src': 'chain', 'base': {'src': 'family', 'name': 'op'}, 'steps': ['lift2']},
             {'src': 'chain', 'base': {'src': 'family', 'name': 'tseitin'}, 'steps': ['or2', 'flip']},
             {'src': 'chain', 'base': {'src': 'family', 'name': 'cpls'}, 'steps': ['shuffle']},
             {'src': 'chain', 'base': {'src': 'family', 'name': 'vdw'}, 'steps': ['eq2']}]
    for i in range(2):
        cat.append(extra[(seed + i) % len(extra)])
    return cat


def shards(tier, seed):
    thorough = tier == 'thorough'
    out = []
    # (b1) line language, one shard per first line (+ the short / unterminated texts)
    depth = 5 if thorough else 4
    for i, firsts in enumerate(scope.chunks(list(range(len(LINES))), 26 if thorough else 13)):
        out.append(('lang%02d' % i, 'run_language', {'firsts': firsts, 'depth': depth}))
    nbody = len(DEEP_BODY_THOROUGH if thorough else DEEP_BODY)
    for i in range(len(DEEP_FIRST)):
        for j, seconds in enumerate(scope.chunks(list(range(nbody)), 4 if thorough else 1)):
            out.append(('deep%d-%d' % (i, j), 'run_language_deep',
                        {'first': i, 'seconds': seconds, 'depth': 6 if thorough else 5,
                         'covered': depth, 'thorough': thorough}))
    for i, chunk in enumerate(scope.stripe(list(range(len(EXOTIC))), 4)):
        out.append(('exotic%d' % i, 'run_exotic', {'first': chunk}))
    out.append(('modes', 'run_modes', {}))
    out.append(('tty0', 'run_tty', {'modes': ['tty']}))
    out.append(('tty1', 'run_tty', {'modes': ['stdin-tty']}))
    # (b2) faults
    recs = small_formulas()
    for i, chunk in enumerate(scope.stripe(recs, 8)):
        out.append(('fault%02d' % i, 'run_faults', {'recs': chunk}))
    for i, chunk in enumerate(scope.stripe(recs, 16 if thorough else 8)):
        out.append(('dfault%02d' % i, 'run_double_faults',
                    {'recs': chunk, 'renderings': ['to_dimacs', 'varnames'] if thorough
                     else ['to_dimacs']}))
    # (a) writers
    wrecs = list(writer_scope(tier))
    for i, chunk in enumerate(scope.stripe(wrecs, 12)):
        out.append(('wscope%02d' % i, 'run_writer_scope', {'recs': chunk, 'offset': i}))
    cat = catalogue(tier, seed)
    for i, chunk in enumerate(scope.stripe(cat, 12)):
        out.append(('wcat%02d' % i, 'run_writer_catalogue', {'recs': chunk}))
    for i, chunk in enumerate(scope.stripe(history_cases(tier), 8)):
        out.append(('whist%02d' % i, 'run_history', {'cases': chunk}))
    for shift in range(12):
        out.append(('big%02d' % shift, 'run_bigtext',
                    {'shifts': [shift], 'nclauses': 180000 if thorough else 90000,
                     'modes': ['stringio', 'path'] if (thorough or shift % 4 == 0) else ['stringio']}))
    # (c) CLI
    for i, chunk in enumerate(scope.stripe(cli_cases(tier), 4)):
        out.append(('cli%d' % i, 'run_cli_cases', {'cases': chunk}))
    return out


# ---------------------------------------------------------- shard bodies --
def _read_case(R, rep, tmp, text, mode='stringio', own=False, sample_every=0):
    case = {'kind': 'read', 'text': text, 'mode': mode}
    if own:
        case['own'] = True
    viol, out, P = judge_read(text, mode, tmp, case, own_output=own)
    tally_read(R, out, P)
    R.case(sample=case if (sample_every and R.evals % sample_every == 0) else None,
           nontrivial=P.n is not None)
    rep.extend(viol)


def run_language(args, R):
    preload()
    tmp, rep = Tmp(), Reporter(R)
    try:
        for fi in args['firsts']:
            first = LINES[fi]
            if fi == 0:
                _read_case(R, rep, tmp, '')
            for k in range(0, args['depth']):
                for rest in itertools.product(LINES, repeat=k):
                    body = '\n'.join((first,) + rest)
                    _read_case(R, rep, tmp, body + '\n', sample_every=50021)
                    if k <= 2:          # the same text without final newline
                        if body != '':
                            _read_case(R, rep, tmp, body)
    finally:
        tmp.close()


def run_language_deep(args, R):
    """A problem line followed by <= depth body lines over the body alphabet
    (texts already enumerated by run_language are skipped).  One shard per
    (problem line, first body line); the shard with second == 0 also takes
    the text made of the problem line alone."""
    preload()
    tmp, rep = Tmp(), Reporter(R)
    full = set(LINES)
    body = DEEP_BODY_THOROUGH if args['thorough'] else DEEP_BODY
    try:
        for second in args['seconds']:
            head = (DEEP_FIRST[args['first']], body[second])
            if second == 0 and head[0] not in full:
                _read_case(R, rep, tmp, head[0] + '\n')
            for k in range(0, args['depth']):
                for rest in itertools.product(body, repeat=k):
                    lines = head + rest
                    if k + 2 <= args['covered'] and all(l in full for l in lines):
                        continue        # already enumerated by run_language
                    _read_case(R, rep, tmp, '\n'.join(lines) + '\n', sample_every=50021)
    finally:
        tmp.close()


def run_exotic(args, R):
    preload()
    tmp, rep = Tmp(), Reporter(R)
    try:
        for i in args['first']:
            for k in range(0, 3):
                for rest in itertools.product(EXOTIC, repeat=k):
                    _read_case(R, rep, tmp, '\n'.join((EXOTIC[i],) + rest) + '\n',
                               sample_every=5003)
    finally:
        tmp.close()


def run_tty(args, R):
    """Typed input: the stream answers isatty() = True.  Every text made of a
    problem line and <= 3 body lines (so also every text that goes wrong only
    after the announced number of clauses)."""
    preload()
    tmp, rep = Tmp(), Reporter(R)
    try:
        for mode in args['modes']:
            for first in DEEP_FIRST:
                for k in range(0, 4):
                    for rest in itertools.product(DEEP_BODY, repeat=k):
                        _read_case(R, rep, tmp, '\n'.join((first,) + rest) + '\n', mode=mode,
                                   sample_every=4001)
    finally:
        tmp.close()


BYTE_CASES = ['7020636e6620312031 0a 312030 0a ff', 'fffe', '7020636e6620312031 0a c328 2030 0a',
              'efbbbf 7020636e6620312031 0a 312030 0a', '7020636e6620312031 0d0a 312030 0d0a',
              '7020636e6620312031 0d 312030 0d']


def run_modes(args, R):
    """Reading through a file name and through stdin: every text of <=2 lines
    over both alphabets; plus byte-level files."""
    preload()
    tmp, rep = Tmp(), Reporter(R)
    alpha = LINES + [l for l in EXOTIC if l not in LINES]
    try:
        for mode in ('path', 'stdin', 'fdfile', 'tmpfile'):
            for k in ((1, 2) if mode in ('path', 'stdin') else (1,)):
                for lines in itertools.product(alpha, repeat=k):
                    body = '\n'.join(lines)
                    _read_case(R, rep, tmp, body + '\n', mode=mode, sample_every=2503)
                    if k == 1 and body:
                        _read_case(R, rep, tmp, body, mode=mode)
        for hx in BYTE_CASES:
            case = {'kind': 'read-bytes', 'hex': hx.replace(' ', '')}
            rep.extend(check_bytes(case, tmp))
            R.case(sample=case, nontrivial=True)
            R.stats['byte_level_files'] += 1
    finally:
        tmp.close()


def renderings(rec, tmp):
    """The writer outputs of a formula that are fault-enumerated."""
    F = build_formula(rec)
    outs = [('to_dimacs', F.to_dimacs())]
    outs.append(('header', write_formula(F, 'stringio', True, False, tmp)[0]))
    outs.append(('varnames', write_formula(F, 'stringio', False, True, tmp)[0]))
    return outs


def run_faults(args, R):
    preload()
    tmp, rep = Tmp(), Reporter(R)
    seen = set()
    try:
        for rec in args['recs']:
            for name, text in renderings(rec, tmp):
                if text not in seen:
                    seen.add(text)
                    _read_case(R, rep, tmp, text, own=True)
                    R.stats['base_texts'] += 1
                for kind, pos, new in faults.faults(text, token_alphabet=TOKENS,
                                                    insert_lines=('', 'c comment', '0', '1 0',
                                                                  'p cnf 2 1')):
                    if new in seen:
                        continue
                    seen.add(new)
                    R.stats['fault_texts'] += 1
                    R.outcomes['fault:' + kind] += 1
                    _read_case(R, rep, tmp, new, sample_every=20011)
    finally:
        tmp.close()


def run_double_faults(args, R):
    preload()
    tmp, rep = Tmp(), Reporter(R)
    seen = set()
    try:
        for rec in args['recs']:
            for name, text in renderings(rec, tmp):
                if name not in args['renderings']:
                    continue
                for kind, pos, new in faults.double_faults(text, token_alphabet=TOKENS_DOUBLE,
                                                           insert_lines=('', 'c comment', '1 0')):
                    if new in seen:
                        continue
                    seen.add(new)
                    R.stats['double_fault_texts'] += 1
                    _read_case(R, rep, tmp, new, sample_every=50021)
    finally:
        tmp.close()


def _write_case(R, rep, tmp, case, sample_every=0):
    R.nt = False
    viol = check_write(case, tmp, R)
    R.case(sample=case if (sample_every and R.evals % sample_every == 0) else None,
           nontrivial=R.nt)
    R.outcomes['write:' + case['formula']['src']] += 1
    rep.extend(viol)


def run_writer_scope(args, R):
    """Every formula of the scope x 4 option pairs; the header and the I/O
    mode rotate deterministically with the position in the enumeration."""
    preload()
    tmp, rep = Tmp(), Reporter(R)
    try:
        for i, rec in enumerate(args['recs']):
            j = i * 12 + args['offset']
            for oi, opts in enumerate(OPTS):
                h = HEADERS[(j + oi) % len(HEADERS)]
                wm, rm = IO_MODES[j % 3]          # stringio / path / fileobj
                _write_case(R, rep, tmp, {'kind': 'write', 'formula': rec, 'header': h,
                                          'opts': opts, 'wmode': wm, 'rmode': rm},
                            sample_every=4001)
            _write_case(R, rep, tmp, {'kind': 'write', 'formula': rec, 'header': {},
                                      'opts': [False, False], 'wmode': 'to_dimacs',
                                      'rmode': 'stringio'})
    finally:
        tmp.close()


def run_writer_catalogue(args, R):
    """Catalogue formula x full header alphabet x 4 option pairs (StringIO),
    and x all I/O modes for a sub-alphabet of headers."""
    preload()
    tmp, rep = Tmp(), Reporter(R)
    io_headers = [HEADERS[i] for i in (0, 3, 11, 13, 14, 23)]
    try:
        for rec in args['recs']:
            size = 0
            if rec['src'] in ('chain', 'family'):
                size = len(build_formula(rec))
            for h in (HEADERS if size <= 60 else io_headers if size <= 1000 else HEADERS[:1]):
                for opts in OPTS:
                    _write_case(R, rep, tmp, {'kind': 'write', 'formula': rec, 'header': h,
                                              'opts': opts, 'wmode': 'stringio',
                                              'rmode': 'stringio'}, sample_every=1009)
            for h in (io_headers if size <= 60 else HEADERS[:1]):
                for opts in OPTS:
                    for wm, rm in IO_MODES[1:]:
                        _write_case(R, rep, tmp, {'kind': 'write', 'formula': rec, 'header': h,
                                                  'opts': opts, 'wmode': wm, 'rmode': rm})
            _write_case(R, rep, tmp, {'kind': 'write', 'formula': rec, 'header': HEADERS[3],
                                      'opts': [False, False], 'wmode': 'to_dimacs',
                                      'rmode': 'stringio'})
    finally:
        tmp.close()


def cli_cases(tier):
    cases = []
    texts = ['p cnf 2 1\n1 -2 0\n', 'p cnf 0 0\n', 'c x\n\np cnf 3 2\n1\n2 0 -3 0\n',
             'p cnf 2 1\n1 -3 0\n', 'p cnf 2 2\n1 -2 0\n', 'p cnf 2 1\n1 -2\n', '', 'c only\n',
             'p cnf 2 1\np cnf 2 1\n1 0\n', '1 0\np cnf 1 1\n', 'p cnf 2 1\nx 0\n',
             'p cnf 2 1 extra\n1 0\n', 'p cnf -1 0\n', 'p cnf 2 1\r\n1 -2 0\r\n',
             'p cnf 0 1\n0\n', 'p cnf 2 1\n1 0 2 0\n', 'p cnf 2\n']
    for t in texts:
        cases.append({'kind': 'cli-read', 'text': t})
        if '\r' not in t:
            cases.append({'kind': 'cli-read', 'text': t, 'stdin': True})
    recs = [{'src': 'scope', 'n': n, 'clauses': [list(c) for c in cls]}
            for n, cls in scope.small_cnf_catalogue()]
    recs += [{'src': 'family', 'name': x} for x in ('php', 'peb', 'tseitin', 'op-smart')]
    recs.append({'src': 'chain', 'base': CHAIN_BASES[0], 'steps': ['xor2']})
    flagsets = [['-q'], [], ['--varnames'], ['-q', '--varnames']]
    for i, rec in enumerate(recs):
        for j, flags in enumerate(flagsets):
            if tier == 'thorough' or (i + j) % 2 == 0:
                cases.append({'kind': 'cli-roundtrip', 'formula': rec, 'flags': flags,
                              'opts': OPTS[(i + j) % 4]})
    return cases


def run_cli_cases(args, R):
    preload()
    tmp, rep = Tmp(), Reporter(R)
    try:
        for case in args['cases']:
            viol = check_cli(case, tmp, R)
            R.case(sample=case if R.evals % 17 == 0 else None, nontrivial=True)
            rep.extend(viol)
    finally:
        tmp.close()
