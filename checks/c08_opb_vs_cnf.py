"""C08  The pseudo-Boolean (OPB) and CNF renderings of a family are the same
formula.

Three levels, all bounded-exhaustive, every pair evaluated on ALL 2^n
assignments (engine.tt bitmaps; clause evaluation for the CNF side, bit-sliced
arithmetic for the pseudo-Boolean side):

 builder  every constraint builder that exists in both formula classes
          (add_clause, cardinality_*, add_*_majority/minority, add_parity)
          x every polarity pattern over <= 5 (7) variables and three patterns
          for every length up to 9, every threshold from -1 to len+1, plus
          repeated / opposite literal lists, with and without declaring the
          variables beforehand;
 lib      every family function of cnfgen that takes `formula_class`, called
          once with CNF and once with OPB, over parameter boxes and over all
          labelled (bipartite / directed) graphs up to a size, all option
          flags, restricted to <= 16 (20) variables;
 tool     every sub-command registered by BOTH command line tools
          (introspected from the real parsers), `cnfgen -q ...` vs
          `pbgen -q ...` in process with mode='formula', over hand written
          argument boxes (numeric boxes, graph constructions, graph files
          and DIMACS files written to a private temp dir, stdin).

Oracle (exactly the property text): same number of variables, same list of
variable names, same model bitmap.  Plus, because the property speaks about
"the formula built as a pseudo-Boolean formula (pbgen, or the library with
the OPB formula class)": the pbgen / OPB result must be a pseudo-Boolean
formula object (cnfgen.formula.baseopb.BaseOPB), and the constraint list of
the pbgen result must be the one the library call with formula_class=OPB
produces (native cardinality constraints are not clause blasted on the way
through the tool).

The global `random` generator is put in the same state before each of the two
builds of a pair (the environment must be equal on both sides; what the seed
option does is property C07, not C08).
"""
import io
import os
import sys
import random
import shutil
import tempfile
import itertools
import contextlib
from math import comb

from engine import tt, scope
from engine.common import setup_paths

PROPERTY = 'C08'
SECOND_PASS = ('run_lib_stripe', 'run_cases')     # see engine/common._run_shard
LEVEL = 'exploration'
EXHAUSTIVE = True
RULE = ('pairs (CNF build, pseudo-Boolean build) of the same input: every constraint builder x '
        'every literal pattern/threshold; every family function with formula_class x every '
        'parameter tuple of a box / every labelled graph up to the stated size x all flags; '
        'every sub-command registered in both tools x a hand-written argument box. Each pair '
        'is compared on variable count, label list and on all 2^n assignments. A pair is '
        'non-trivial when both builds succeed, there is at least one variable and one '
        'constraint; pairs are distinct by construction (each input enumerated once)')
ASSUMPTIONS = [
    'bounded scope: <=16 variables per library instance (20 thorough), all labelled graphs <=5 '
    'vertices (6 in thorough, with smaller parameters), all bipartite graphs <=3x3 (thorough also '
    '3x4,4x3,4x4,2x5,5x2,2x6,6x2), all DAGs <=5 (6) vertices, constraint builders on lists of <=5 (7) '
    'literals exhaustively and <=9 by three patterns; bitmap evaluation up to 18 (22) variables; '
    'larger instances (Pitfall) are compared clause by clause, which is complete when the '
    'pseudo-Boolean side consists of clauses only',
    'engine.tt arithmetic evaluation of pseudo-Boolean constraints is the reference meaning of a '
    'constraint (cross-checked against a per-assignment evaluator by engine.tt.selftest)',
    'both builds of a pair start from the same state of the global random generator',
    'tool level argument boxes are hand written; the set of sub-commands is introspected',
]
VACUITY = {'sat_pairs': 20, 'unsat_pairs': 20, 'native_pb_constraints': 100,
           'both_rejected': 5, 'tool_subcommands_covered': 33,
           'lib_families_covered': 31, 'tool_pairs_with_library_reference': 50}

HSEED = 80808          # state of the global generator before every build
PLACE = '@DIR@'        # placeholder of the private temp dir in argument vectors


def preload():
    setup_paths()
    import cnfgen  # noqa
    import cnfgen.clitools.cnfgen  # noqa
    import cnfgen.clitools.pbgen  # noqa


def _classes():
    from cnfgen.formula.cnf import CNF
    from cnfgen.formula.opb import OPB
    return {'CNF': CNF, 'OPB': OPB}


def _is_pb(F):
    from cnfgen.formula.baseopb import BaseOPB
    return isinstance(F, BaseOPB)


# ------------------------------------------------------------ graph decoding
def _tokens(spec, tmp):
    return [str(t).replace(PLACE, tmp or PLACE) for t in spec]


def _sg(g, tmp):
    if isinstance(g, dict):
        from cnfgen.clitools.graph_args import make_graph_from_spec
        return make_graph_from_spec('simple', _tokens(g['spec'], tmp))
    return scope.mk_graph(g[0], [tuple(e) for e in g[1]])


def _dg(g, tmp):
    if isinstance(g, dict):
        from cnfgen.clitools.graph_args import make_graph_from_spec
        return make_graph_from_spec('dag', _tokens(g['spec'], tmp))
    return scope.mk_digraph(g[0], [tuple(e) for e in g[1]])


def _bg(g, tmp):
    if isinstance(g, dict):
        from cnfgen.clitools.graph_args import make_graph_from_spec
        return make_graph_from_spec('bipartite', _tokens(g['spec'], tmp))
    return scope.mk_bipartite(g[0], g[1], [tuple(e) for e in g[2]])


BUILDERS_VAL = ('cardinality_geq', 'cardinality_leq', 'cardinality_eq', 'cardinality_neq')
BUILDERS_NOVAL = ('add_clause', 'add_loose_majority', 'add_loose_minority',
                  'add_strict_majority', 'add_strict_minority')
LIB_FAMILIES = ('php', 'gphp', 'bphp', 'rphp', 'count', 'matching', 'tseitin', 'subsetcard',
                'cliquecol', 'kcolor', 'ec', 'domset', 'tiling', 'iso', 'auto', 'op', 'gop',
                'peb', 'stone', 'sstone', 'cpls', 'randkcnf', 'randkxor', 'ptn', 'ram', 'vdw',
                'kclique', 'kcliquebin', 'ramlb', 'subgraph', 'pitfall')


def build_lib(case, clsname, tmp=None):
    """Build the formula of a library-level (or builder-level) case with the
    given formula class."""
    import cnfgen
    fc = _classes()[clsname]
    fam = case['fam']
    a = case['args']
    random.seed(HSEED)
    if fam == 'builder':
        method, nvars, lits, val = a
        F = fc()
        F.update_variable_number(nvars)
        lits = list(lits)
        if method in BUILDERS_NOVAL:
            getattr(F, method)(lits)
        else:
            getattr(F, method)(lits, val)
        return F
    # graphs first (a graph specification may draw random numbers, exactly as
    # the command line does while parsing), then the optional seed
    G = None
    if fam in ('matching', 'tseitin', 'kcolor', 'ec', 'domset', 'tiling', 'auto', 'gop',
               'kclique', 'kcliquebin', 'ramlb'):
        G = _sg(a[0], tmp)
    elif fam in ('iso', 'subgraph'):
        G = _sg(a[0], tmp)
        H = _sg(a[1], tmp)
    elif fam in ('gphp', 'subsetcard'):
        G = _bg(a[0], tmp)
    elif fam in ('peb', 'stone'):
        G = _dg(a[0], tmp)
    elif fam == 'sstone':
        G = _dg(a[0], tmp)
        H = _bg(a[1], tmp)
    if case.get('seed'):
        random.seed(case['seed'])
    if fam == 'php':
        return cnfgen.PigeonholePrinciple(a[0], a[1], functional=a[2], onto=a[3], formula_class=fc)
    if fam == 'gphp':
        return cnfgen.GraphPigeonholePrinciple(G, functional=a[1], onto=a[2], formula_class=fc)
    if fam == 'bphp':
        return cnfgen.BinaryPigeonholePrinciple(a[0], a[1], formula_class=fc)
    if fam == 'rphp':
        return cnfgen.RelativizedPigeonholePrinciple(a[0], a[1], a[2], formula_class=fc)
    if fam == 'count':
        return cnfgen.CountingPrinciple(a[0], a[1], formula_class=fc)
    if fam == 'matching':
        return cnfgen.PerfectMatchingPrinciple(G, formula_class=fc)
    if fam == 'tseitin':
        ch = a[1]
        if isinstance(ch, str):        # what the command line documents
            n = G.order()
            ch = None if n < 1 else {'first': [1] + [0] * (n - 1), 'zero': [0] * n,
                                     'one': [1] * n}[ch]
        return cnfgen.TseitinFormula(G, ch, formula_class=fc)
    if fam == 'subsetcard':
        return cnfgen.SubsetCardinalityFormula(G, a[1], formula_class=fc)
    if fam == 'cliquecol':
        return cnfgen.CliqueColoring(a[0], a[1], a[2], formula_class=fc)
    if fam == 'kcolor':
        return cnfgen.GraphColoringFormula(G, a[1], functional=a[2], formula_class=fc)
    if fam == 'ec':
        return cnfgen.EvenColoringFormula(G, formula_class=fc)
    if fam == 'domset':
        return cnfgen.DominatingSet(G, a[1], alternative=a[2], formula_class=fc)
    if fam == 'tiling':
        return cnfgen.Tiling(G, formula_class=fc)
    if fam == 'iso':
        return cnfgen.GraphIsomorphism(G, H, formula_class=fc)
    if fam == 'auto':
        return cnfgen.GraphAutomorphism(G, formula_class=fc)
    if fam == 'op':
        return cnfgen.OrderingPrinciple(a[0], a[1], a[2], a[3], a[4], formula_class=fc)
    if fam == 'gop':
        return cnfgen.GraphOrderingPrinciple(G, a[1], a[2], a[3], a[4], formula_class=fc)
    if fam == 'peb':
        return cnfgen.PebblingFormula(G, formula_class=fc)
    if fam == 'stone':
        return cnfgen.StoneFormula(G, a[1], formula_class=fc)
    if fam == 'sstone':
        return cnfgen.SparseStoneFormula(G, H, formula_class=fc)
    if fam == 'cpls':
        return cnfgen.CPLSFormula(a[0], a[1], a[2], formula_class=fc)
    if fam in ('randkcnf', 'randkxor'):
        f = cnfgen.RandomKCNF if fam == 'randkcnf' else cnfgen.RandomKXOR
        return f(a[0], a[1], a[2], seed=a[3], planted_assignments=a[4], formula_class=fc)
    if fam == 'ptn':
        return cnfgen.PythagoreanTriples(a[0], formula_class=fc)
    if fam == 'ram':
        return cnfgen.RamseyNumber(a[0], a[1], a[2], formula_class=fc)
    if fam == 'vdw':
        return cnfgen.VanDerWaerden(*a, formula_class=fc)
    if fam == 'kclique':
        return cnfgen.CliqueFormula(G, a[1], symbreak=a[2], formula_class=fc)
    if fam == 'kcliquebin':
        return cnfgen.BinaryCliqueFormula(G, a[1], symbreak=a[2], formula_class=fc)
    if fam == 'ramlb':
        return cnfgen.RamseyWitnessFormula(G, a[1], a[2], symbreak=a[3], formula_class=fc)
    if fam == 'subgraph':
        return cnfgen.SubgraphFormula(G, H, induced=a[2], symbreak=a[3], formula_class=fc)
    if fam == 'pitfall':
        return cnfgen.PitfallFormula(a[0], a[1], a[2], a[3], a[4], formula_class=fc)
    raise KeyError(fam)


# ------------------------------------------------------------------ oracle --
def _labels(F):
    try:
        return list(F.all_variable_labels())
    except Exception as e:      # compared as an outcome, like any other
        return 'exception:' + type(e).__name__


def _clause_sets(F):
    """Set of clauses (frozensets of literals) when F consists of clauses only
    (CNF, or pseudo-Boolean constraints of the shape sum(lits) >= 1), else
    None."""
    out = set()
    if hasattr(F, '_constraints'):
        for con in F._constraints:
            if con[-2] != '>=' or con[-1] != 1 or any(c != 1 for c, _ in con[:-2]):
                return None
            out.add(frozenset(l for _, l in con[:-2]))
    else:
        for c in F._clauses:
            out.add(frozenset(c))
    return out


def _native(F):
    """number of pseudo-Boolean constraints of F that are not clauses."""
    k = 0
    for con in getattr(F, '_constraints', ()):
        if con[-2] != '>=' or con[-1] != 1 or any(c != 1 for c, _ in con[:-2]):
            k += 1
    return k


def compare_pair(A, B, limit, st):
    """A: the CNF-side formula, B: the pseudo-Boolean-side formula.  Returns a
    list of (symptom, text); fills the dict `st` with statistics."""
    out = []
    na, nb = A.number_of_variables(), B.number_of_variables()
    if na != nb:
        out.append(('nvars', 'CNF build has %d variables, pseudo-Boolean build has %d' % (na, nb)))
        return out
    la, lb = _labels(A), _labels(B)
    if la != lb:
        if isinstance(la, list) and isinstance(lb, list):
            pos = next((i for i, (x, y) in enumerate(zip(la, lb)) if x != y), min(len(la), len(lb)))
            out.append(('labels', 'variable names differ from position %d: CNF %r / PB %r' %
                        (pos + 1, la[pos:pos + 3], lb[pos:pos + 3])))
        else:
            out.append(('labels', 'variable names: CNF %r / PB %r' % (str(la)[:80], str(lb)[:80])))
    n = na
    st['nontrivial'] = n > 0 and len(A) > 0 and len(B) > 0
    st['native'] = _native(B)
    if n <= limit:
        try:
            ma = tt.formula_models(A)
            mb = tt.formula_models(B)
        except ValueError as e:
            out.append(('literal-range', str(e)))
            return out
        st['assignments'] = 1 << n
        st['sat'] = bool(ma)
        st['method'] = 'bitmap'
        if ma != mb:
            d = ma ^ mb
            x = next(tt.models(d))
            side = 'a model of the CNF build only' if (ma >> x) & 1 else \
                'a model of the pseudo-Boolean build only'
            names = la if isinstance(la, list) and len(la) == n else ['x%d' % i for i in range(1, n + 1)]
            out.append(('model-set', 'CNF build has %d models, pseudo-Boolean build %d; the assignment '
                        'with true variables %r is %s' %
                        (tt.count(ma), tt.count(mb), [names[v - 1] for v in tt.true_vars(x, n)], side)))
        return out
    # too many variables for a bitmap: complete only for clause-shaped PB side
    ca, cb = _clause_sets(A), _clause_sets(B)
    if ca is None or cb is None:
        st['method'] = 'too-large-not-evaluated'
        return out
    st['method'] = 'clause-sets'
    if ca == cb:
        return out      # syntactically the same conjunction of clauses
    try:
        ma, _ = tt.enumerate_models(n, [sorted(c) for c in ca], node_cap=2000000)
        mb, _ = tt.enumerate_models(n, [sorted(c) for c in cb], node_cap=2000000)
    except tt.TooManyNodes:
        st['method'] = 'too-large-not-evaluated'
        return out
    st['method'] = 'backtracking'
    if sorted(ma) != sorted(mb):
        out.append(('model-set', 'CNF build has %d models, pseudo-Boolean build has %d '
                    '(exhaustive backtracking over %d variables)' % (len(ma), len(mb), n)))
    return out


def _attempt(f, *args):
    try:
        return 'ok', f(*args)
    except Exception as e:          # noqa: the outcome is compared
        return 'exc', e


def check_lib(case, st=None):
    st = st if st is not None else {}
    fam = case['fam']
    pre = 'builder:' + case['args'][0] if fam == 'builder' else fam
    out = []

    def bad(sym, what):
        out.append({'key': '%s:%s' % (pre, sym), 'what': what, 'case': dict(case)})

    limit = case.get('limit', 22)
    ka, A = _attempt(build_lib, case, 'CNF')
    kb, B = _attempt(build_lib, case, 'OPB')
    if ka == 'exc' and kb == 'exc':
        st['rejected'] = type(A).__name__
        if type(A) is not type(B):
            bad('exception-type-mismatch', 'CNF build raises %r, OPB build raises %r' % (A, B))
        return out
    if kb == 'exc':
        bad('OPB:exception:' + type(B).__name__,
            'formula_class=CNF builds a formula, formula_class=OPB raises %r' % (B,))
        return out
    if ka == 'exc':
        bad('CNF:exception:' + type(A).__name__,
            'formula_class=OPB builds a formula, formula_class=CNF raises %r' % (A,))
        return out
    if not _is_pb(B):
        bad('not-OPB-class', 'called with formula_class=OPB, returned a %s' % type(B).__name__)
    for sym, what in compare_pair(A, B, limit, st):
        bad(sym, what)
    return out


# -------------------------------------------------------------- tool level --
def registered_subcommands():
    """{'cnfgen': [...], 'pbgen': [...]} from the real argument parsers."""
    import argparse
    from cnfgen.clitools.cmdline import get_formula_helpers, get_transformation_helpers
    import importlib
    cmod = importlib.import_module('cnfgen.clitools.cnfgen')
    pmod = importlib.import_module('cnfgen.clitools.pbgen')
    res = {}
    p1 = cmod.setup_command_line_parsers('cnfgen', get_formula_helpers(),
                                         get_transformation_helpers())[0]
    p2 = pmod.setup_command_line_parsers('pbgen', get_formula_helpers())
    for name, p in (('cnfgen', p1), ('pbgen', p2)):
        acts = [a for a in p._actions if isinstance(a, argparse._SubParsersAction)]
        res[name] = sorted(acts[0].choices) if acts else []
    return res


def run_tool(tool, argv, stdin_text):
    import cnfgen.clitools.msg as msg
    if tool == 'cnfgen':
        from cnfgen.clitools.cnfgen import cli
    else:
        from cnfgen.clitools.pbgen import cli
    if hasattr(msg, '_prefix'):
        msg._prefix = ''
    random.seed(HSEED)
    old_in = sys.stdin
    sys.stdin = io.StringIO(stdin_text or '')
    try:
        with contextlib.redirect_stderr(io.StringIO()), contextlib.redirect_stdout(io.StringIO()):
            return 'ok', cli([tool, '-q'] + argv, mode='formula')
    except SystemExit as e:
        return 'exc', e
    except Exception as e:          # noqa: the outcome is compared
        return 'exc', e
    finally:
        sys.stdin = old_in
        if hasattr(msg, '_prefix'):
            msg._prefix = ''


def check_tool(case, st=None, tmp=None):
    st = st if st is not None else {}
    own = tmp is None
    if own:
        tmp = tempfile.mkdtemp(prefix='c08_')
    try:
        return _check_tool(case, st, tmp)
    finally:
        if own:
            shutil.rmtree(tmp, ignore_errors=True)


def _check_tool(case, st, tmp):
    cmd = case['cmd']
    out = []

    def bad(key, what):
        out.append({'key': key, 'what': what, 'case': dict(case)})

    for name, text in sorted((case.get('files') or {}).items()):
        with open(os.path.join(tmp, name), 'w') as f:
            f.write(text)
    argv = _tokens(case['argv'], tmp)
    limit = case.get('limit', 22)
    ka, A = run_tool('cnfgen', argv, case.get('stdin'))
    kb, B = run_tool('pbgen', argv, case.get('stdin'))
    if ka == 'exc' and kb == 'exc':
        st['rejected'] = type(A).__name__
        if type(A) is not type(B):
            bad('tool:%s:exception-type-mismatch' % cmd,
                'cnfgen raises %s, pbgen raises %s' % (type(A).__name__, type(B).__name__))
        return out
    if ka == 'exc' or kb == 'exc':
        who, E = ('cnfgen', A) if ka == 'exc' else ('pbgen', B)
        bad('tool:%s:accept-mismatch:%s' % (cmd, type(E).__name__),
            'only %s fails on this command line: %s' % (who, str(E).strip().splitlines()[:2]))
        return out
    pb = _is_pb(B)
    lib = case.get('lib')
    if not pb:
        extra = ''
        if lib is not None:
            kl, L = _attempt(build_lib, lib, 'OPB', tmp)
            if kl == 'ok' and _is_pb(L):
                extra = ('; the library call %s(%s, formula_class=OPB) gives %d constraints, %d of them '
                         'native cardinality constraints' % (lib['fam'], lib['args'], len(L), _native(L)))
        bad('pbgen:%s:not-OPB-class' % cmd,
            'pbgen ... mode=formula returned a %s object (%d clauses), not a pseudo-Boolean '
            'formula (cnfgen.formula.baseopb.BaseOPB)%s' % (type(B).__name__, len(B), extra))
    for sym, what in compare_pair(A, B, limit, st):
        bad('tool:%s:%s' % (cmd, sym), what)
    if lib is not None and pb:
        kl, L = _attempt(build_lib, lib, 'OPB', tmp)
        if kl == 'exc':
            bad('tool:%s:library-reference:exception:%s' % (cmd, type(L).__name__),
                'pbgen builds a formula but the library call %r with formula_class=OPB raises %r'
                % (lib, L))
        elif not _is_pb(L):
            pass        # reported at library level
        else:
            st['libref'] = True
            if list(B._constraints) != list(L._constraints):
                nb, nl = _native(B), _native(L)
                bad('pbgen:%s:constraints-differ-from-library-OPB' % cmd,
                    'pbgen result has %d constraints (%d native), the library call %r with '
                    'formula_class=OPB has %d (%d native)' % (len(B), nb, lib, len(L), nl))
    return out


# ------------------------------------------- what the two tools *print* --
def run_tool_text(tool, argv, flags=('-q',)):
    import cnfgen.clitools.msg as msg
    if tool == 'cnfgen':
        from cnfgen.clitools.cnfgen import cli
    else:
        from cnfgen.clitools.pbgen import cli
    if hasattr(msg, '_prefix'):
        msg._prefix = ''
    random.seed(HSEED)
    buf = io.StringIO()
    try:
        with contextlib.redirect_stderr(io.StringIO()), contextlib.redirect_stdout(buf):
            cli([tool] + list(flags) + argv, mode='output')
        return 'ok', buf.getvalue()
    except SystemExit as e:
        return ('ok', buf.getvalue()) if e.code in (0, None) else ('exc', e)
    except Exception as e:          # noqa: the outcome is compared
        return 'exc', e
    finally:
        if hasattr(msg, '_prefix'):
            msg._prefix = ''


def big_graph_file(kind, k):
    """k disjoint copies of a small graph, in kthlist format."""
    lines = []
    if kind == 'triangles':
        n = 3 * k
        for i in range(k):
            a = 3 * i + 1
            lines += ['%d : %d %d 0' % (a, a + 1, a + 2), '%d : %d %d 0' % (a + 1, a, a + 2),
                      '%d : %d %d 0' % (a + 2, a, a + 1)]
    elif kind == 'edges':
        n = 2 * k
        for i in range(k):
            a = 2 * i + 1
            lines += ['%d : %d 0' % (a, a + 1), '%d : %d 0' % (a + 1, a)]
    else:
        raise KeyError(kind)
    return '%d\n%s\n' % (n, '\n'.join(lines))


def check_text(case, st=None, tmp=None):
    """Realistic sizes (more rows than any writer buffer): the DIMACS text
    printed by cnfgen and the OPB text printed by pbgen, read by the strict
    reference readers, must be the same formula.  The commands are chosen so
    that the formula falls apart into variable-disjoint components of <= 20
    variables (components of the union of both constraint hypergraphs); the
    comparison of the model sets is then exact, component by component."""
    from ref import c12_readers as rd
    from ref import c06_dimacs_ref as dref
    st = st if st is not None else {}
    out = []

    def bad(sym, what):
        out.append({'key': 'text:%s:%s' % (case['cmd'], sym), 'what': what, 'case': dict(case)})
    own = tmp is None
    if own:
        tmp = tempfile.mkdtemp(prefix='c08_')
    try:
        for name, (kind, k) in sorted((case.get('bigfiles') or {}).items()):
            with open(os.path.join(tmp, name), 'w') as f:
                f.write(big_graph_file(kind, k))
        argv = _tokens(case['argv'], tmp)
        fl = tuple(case.get('flags') or ('-q',))
        as_opb = case.get('cnf_as') == 'opb'
        # cnf_as = 'opb': what cnfgen prints when asked for the OPB format
        ka, A = run_tool_text('cnfgen', argv, fl + (('-of', 'opb') if as_opb else ()))
        kb, B = run_tool_text('pbgen', argv, fl)
    finally:
        if own:
            shutil.rmtree(tmp, ignore_errors=True)
    if ka == 'exc' or kb == 'exc':
        bad('exception', 'cnfgen: %r, pbgen: %r' % (A if ka == 'exc' else 'ok', B if kb == 'exc' else 'ok'))
        return out
    if as_opb:
        try:
            NA, MA, consA = rd.read_opb(A)
        except rd.FormatError as e:
            bad('cnfgen-opb-text-unreadable', 'strict OPB reader: %s' % (e,))
            return out
        if MA != len(consA):
            bad('cnfgen-header-count', 'OPB header of cnfgen announces %d constraints, %d are printed'
                % (MA, len(consA)))

        class _P:            # the same fields as the DIMACS parse, rows kept as constraints
            ok = True
            n = NA
            clauses = []
        P = _P()
    else:
        consA = None
        P = dref.parse(A)
        if not P.ok:
            bad('cnfgen-text-unreadable', 'strict DIMACS reader: %r' % (P.issues[:3],))
            return out
    try:
        N, M, cons = rd.read_opb(B)
    except rd.FormatError as e:
        bad('pbgen-text-unreadable', 'strict OPB reader: %s' % (e,))
        return out
    st['rows'] = (len(P.clauses), len(cons))
    if '--varnames' in (case.get('flags') or ()):
        # the names both tools print (comment lines 'c varname i NAME' / '* varname xi NAME')
        na = [ln.split(None, 3)[3] if len(ln.split(None, 3)) > 3 else '' for ln in A.splitlines()
              if ln.startswith('* varname ' if as_opb else 'c varname ')]
        nb_ = [ln.split(None, 3)[3] if len(ln.split(None, 3)) > 3 else '' for ln in B.splitlines()
               if ln.startswith('* varname ')]
        st['names'] = len(na)
        if na != nb_ or len(na) != P.n:
            bad('printed-names', 'cnfgen prints %d names %r..., pbgen %d names %r... for %d variables'
                % (len(na), na[:3], len(nb_), nb_[:3], P.n))
    if N != P.n:
        bad('nvars', 'cnfgen prints %d variables, pbgen %d' % (P.n, N))
        return out
    if M != len(cons):
        bad('pbgen-header-count', 'OPB header announces %d constraints, %d are printed' % (M, len(cons)))
    # components of the union hypergraph
    parent = list(range(N + 1))

    def find(x):
        while parent[x] != x:
            parent[x] = parent[parent[x]]
            x = parent[x]
        return x

    def union(vs):
        vs = list(vs)
        for v in vs[1:]:
            ra, rb = find(vs[0]), find(v)
            if ra != rb:
                parent[rb] = ra
    for c in P.clauses:
        union(abs(l) for l in c)
    for terms, rel, deg in cons + (consA or []):
        union(abs(l) for (_, l) in terms)
    comp = {}
    for v in range(1, N + 1):
        comp.setdefault(find(v), []).append(v)
    cnf_of, pb_of = {}, {}
    empty_cnf = empty_pb_false = 0
    for c in P.clauses:
        if not c:
            empty_cnf += 1
        else:
            cnf_of.setdefault(find(abs(c[0])), []).append(c)
    for terms, rel, deg in cons:
        if not terms:
            if not ((0 >= deg) if rel == '>=' else (0 == deg)):
                empty_pb_false += 1
        else:
            pb_of.setdefault(find(abs(terms[0][1])), []).append((terms, rel, deg))
    pbA_of = {}
    for terms, rel, deg in (consA or []):
        if not terms:
            if not ((0 >= deg) if rel == '>=' else (0 == deg)):
                empty_cnf += 1
        else:
            pbA_of.setdefault(find(abs(terms[0][1])), []).append((terms, rel, deg))
    if bool(empty_cnf) != bool(empty_pb_false):
        bad('model-set', 'constant-false rows: cnfgen %d, pbgen %d' % (empty_cnf, empty_pb_false))
    ncomp = 0
    if any(len(vs) > 20 for vs in comp.values()):
        # wide rows (one clause over 120 variables ...): no truth table, but the
        # two texts are the same formula if they have the same rows -- every
        # constraint of pbgen a clause (coefficients 1, >= 1) over the literal
        # set of the corresponding row of cnfgen
        rowsA = sorted(tuple(sorted(c)) for c in P.clauses) if not as_opb else None
        rowsB = sorted(tuple(sorted(l for (_, l) in terms)) for (terms, rel, deg) in cons
                       if rel == '>=' and deg == 1 and all(co == 1 for (co, _) in terms))
        if rowsA is not None and len(rowsB) == len(cons) and rowsA == rowsB \
                and all(len(set(map(abs, r))) == len(r) for r in rowsA):
            st['rowwise_identical'] = True
            st['components'] = 0
            st['nontrivial'] = True
            return out
        big = max(len(vs) for vs in comp.values())
        if rowsA is not None and len(rowsB) == len(cons):
            bad('model-set', 'both texts are lists of clauses, but not the same ones: cnfgen %d rows, pbgen %d; '
                'first rows %r / %r' % (len(rowsA), len(rowsB), rowsA[:1], rowsB[:1]))
        else:
            bad('harness:component-too-large', '%d variables in one component' % big)
        return out
    for root, vs in comp.items():
        idx = {v: i + 1 for i, v in enumerate(vs)}
        k = len(vs)
        loc = lambda l: idx[abs(l)] if l > 0 else -idx[abs(l)]
        a = tt.cnf_models(k, [[loc(l) for l in c] for c in cnf_of.get(root, [])])
        for terms, rel, deg in pbA_of.get(root, []):
            a &= tt.pb_models(k, [(co, loc(l)) for (co, l) in terms], '>=' if rel == '>=' else '==', deg)
        b = tt.columns(k)[0]
        for terms, rel, deg in pb_of.get(root, []):
            b &= tt.pb_models(k, [(co, loc(l)) for (co, l) in terms], '>=' if rel == '>=' else '==', deg)
        ncomp += 1
        st['assignments'] = st.get('assignments', 0) + (1 << k)
        if a != b:
            d = a ^ b
            m = next(tt.models(d))
            true_vars = [vs[i - 1] for i in tt.true_vars(m, k)]
            bad('model-set', 'on the component with variables %r..%r the assignment with true '
                'variables %r satisfies only the %s text' % (vs[0], vs[-1], true_vars,
                                                            'DIMACS' if (a >> m) & 1 else 'OPB'))
            break
    st['components'] = ncomp
    st['nontrivial'] = True
    return out


def text_cases(tier):
    cs = []

    def add(cmd, argv, bigfiles=None):
        cs.append({'lvl': 'text', 'cmd': cmd, 'argv': argv, 'bigfiles': bigfiles or {}})
    for (p_, n_) in ((1100, 0), (0, 1100), (1024, 1), (1025, 0), (2050, 3)):
        add('and', ['and', p_, n_])
    add('kcolor', ['kcolor', 3, 'kthlist', PLACE + '/tri.kthlist'], {'tri.kthlist': ('triangles', 350)})
    add('kcolor', ['kcolor', 2, 'kthlist', PLACE + '/tri.kthlist'], {'tri.kthlist': ('triangles', 300)})
    add('matching', ['matching', 'kthlist', PLACE + '/edges.kthlist'], {'edges.kthlist': ('edges', 1100)})
    add('tseitin', ['tseitin', 'first', 'kthlist', PLACE + '/tri.kthlist'], {'tri.kthlist': ('triangles', 400)})
    # the names printed with --varnames, under every verbosity
    for fl in (['-q', '--varnames'], ['--varnames'], ['-v', '--varnames']):
        for cmd, argv in (('php', ['php', 3, 2]), ('kcolor', ['kcolor', 2, 'complete', 3]),
                          ('count', ['count', 4, 2]), ('tseitin', ['tseitin', 'first', 'complete', 4])):
            cs.append({'lvl': 'text', 'cmd': cmd, 'argv': argv, 'bigfiles': {}, 'flags': fl})
    # a header value (the name of a graph file) with line breaks of every kind
    # followed by text that looks like a constraint / a clause: both tools must
    # keep it inside their comments
    for brk in ('\r', '\n', '\r\n', '\x0c', '\x0b', '\x1c', '\x85', '\u2028'):
        nm = 'g' + brk + '+1 x1 >= 1 ;' + brk + '1 0' + brk + '* .kthlist'
        for fl in ([], ['-v']):
            cs.append({'lvl': 'text', 'cmd': 'kcolor', 'argv': ['kcolor', 2, PLACE + '/' + nm],
                       'bigfiles': {nm: ('triangles', 2)}, 'flags': fl})
    # clauses with 119..241 literals (row lengths at which a writer may wrap)
    for (p_, n_) in ((70, 50), (120, 0), (0, 119), (121, 0), (200, 40), (120, 121)):
        add('or', ['or', p_, n_])
    # what cnfgen prints when asked for OPB against what pbgen prints, also for
    # instances with clauses / constraints that have no literals at all
    for cmd, argv in (('php', ['php', 3, 2]), ('php', ['php', 2, 0]), ('php', ['php', 0, 2]),
                      ('count', ['count', 4, 2]), ('count', ['count', 3, 5]), ('count', ['count', 2, 3]),
                      ('matching', ['matching', 'empty', 3]), ('matching', ['matching', 'complete', 4]),
                      ('tiling', ['tiling', 'empty', 2]), ('tseitin', ['tseitin', 'first', 'empty', 2]),
                      ('tseitin', ['tseitin', 'first', 'complete', 4]), ('and', ['and', 0, 0]),
                      ('or', ['or', 0, 0]), ('kcolor', ['kcolor', 1, 'complete', 2]),
                      ('subsetcard', ['subsetcard', 'empty', 2, 2]), ('parity', ['parity', 3])):
        for fl in (['-q'], ['--varnames']):
            cs.append({'lvl': 'text', 'cmd': cmd, 'argv': argv, 'bigfiles': {}, 'flags': fl, 'cnf_as': 'opb'})
    if tier == 'thorough':
        add('and', ['and', 4097, 4097])
        add('kcolor', ['kcolor', 4, 'kthlist', PLACE + '/tri.kthlist'], {'tri.kthlist': ('triangles', 1400)})
    return cs


def replay(case):
    if case.get('lvl') == 'tool':
        return check_tool(case)
    if case.get('lvl') == 'text':
        return check_text(case)
    if case.get('lvl') == 'registry':
        return []
    return check_lib(case)


# ------------------------------------------------------- case enumeration --
def _g(n, es):
    return [n, [list(e) for e in es]]


def _b(L, Rr, es):
    return [L, Rr, [list(e) for e in es]]


def builder_cases(tier):
    th = tier == 'thorough'
    kmax = 7 if th else 5
    lists = [[]]
    for k in range(1, kmax + 1):
        lists.extend(scope.polarity_patterns(k))
    for k in range(kmax + 1, 10):       # longer lists: three polarity patterns each
        lists += [list(range(1, k + 1)), [-v for v in range(1, k + 1)],
                  [v if v % 2 else -v for v in range(1, k + 1)]]
    # non contiguous variables, repeated and opposite literals
    lists += [[2], [-3, 1], [4, -2, 1], [1, 1], [1, -1], [1, 2, 1], [1, 2, -1], [-2, -2, 1],
              [1, 1, 1], [2, -1, -2, 1]]
    cs = []
    for lits in lists:
        # variables declared beforehand (one of them unused) / discovered by
        # the builder's own check of the literals
        for nv in (max([abs(l) for l in lits] + [0]) + 1, 0):
            for m in BUILDERS_NOVAL:
                cs.append({'lvl': 'lib', 'fam': 'builder', 'args': [m, nv, lits, None]})
            for m in BUILDERS_VAL:
                for v in range(-1, len(lits) + 2):
                    cs.append({'lvl': 'lib', 'fam': 'builder', 'args': [m, nv, lits, v]})
            for c in (0, 1):
                cs.append({'lvl': 'lib', 'fam': 'builder', 'args': ['add_parity', nv, lits, c]})
    return cs


def lib_cases(tier, seed, sink=None):
    """Enumerate the library-level cases.  With `sink` every case is handed to
    sink(case) instead of being collected (the thorough tier has > 10^6
    cases; shards re-enumerate and keep their own stripe)."""
    th = tier == 'thorough'
    V = 20 if th else 16
    lim = 22 if th else 18
    cs = []
    if sink is None:
        sink = cs.append

    def add(fam, *args, **kw):
        c = {'lvl': 'lib', 'fam': fam, 'args': list(args)}
        c.update(kw)
        c['limit'] = 22 if fam == 'pitfall' or c.get('extra') else lim
        sink(c)

    graphs = {n: [_g(n, es) for es in scope.simple_graphs(n)] for n in range(0, 7 if th else 6)}
    dags = graphs                      # edges u<v, same encoding
    FT = (False, True)

    # ---- pigeonhole family
    for P in range(0, 6):
        for H in range(0, 6):
            if P * H <= V:
                for f in FT:
                    for o in FT:
                        add('php', P, H, f, o)
    sizes = [(L, Rr) for L in range(4) for Rr in range(4)]
    if th:
        sizes += [(3, 4), (4, 3), (2, 5), (5, 2), (4, 4), (2, 6), (6, 2)]
    bips = {}
    for (L, Rr) in sizes:
        bips[(L, Rr)] = [_b(L, Rr, es) for es in scope.bipartite_graphs(L, Rr)]
        for B in bips[(L, Rr)]:
            for f in FT:
                for o in FT:
                    add('gphp', B, f, o)
            for eq in FT:
                add('subsetcard', B, eq)
    for P in range(0, 6):
        for H in range(0, 10):
            if P * max(0, (H - 1).bit_length()) <= V:
                add('bphp', P, H)
    for M in range(0, 5):
        for T in range(0, 5):
            for N in range(0, 5):
                if M * T + T * N + T <= V:
                    add('rphp', M, T, N)
    # ---- counting family
    for M in range(0, 9):
        for p in range(1, M + 2):
            if comb(M, p) <= V:
                add('count', M, p)
    for n in range(0, 7 if th else 6):
        for G in graphs[n]:
            if len(G[1]) <= V:
                add('matching', G)
                add('tiling', G)
                add('ec', G)
    # ---- tseitin: every charge vector on <= 4 vertices
    for n in range(0, 7 if th else 6):
        for G in graphs[n]:
            add('tseitin', G, None)
            if n <= 4 or (th and n == 5):
                for ch in itertools.product((0, 1), repeat=n):
                    add('tseitin', G, list(ch))
            else:
                for ch in ([1] * n, [0] * n, [0, 1, 0, 1, 1][:n]):
                    add('tseitin', G, ch)
            add('tseitin', G, [1])            # shorter (padded) / longer
            add('tseitin', G, [1] * (n + 1))
    # ---- colouring, dominating set
    for n in range(0, 7 if th else 6):
        for G in graphs[n]:
            for colors in range(0, 6):
                if n * colors <= V and (n <= 4 or 1 <= colors <= 2 or (th and n == 5)):
                    for f in FT:
                        add('kcolor', G, colors, f)
            for d in range(1, 6):
                if n + n * d <= V and (n <= 4 or d == 1 or (th and n == 5)):
                    for alt in FT:
                        add('domset', G, d, alt)
            add('domset', G, 0, False)        # outside the domain: both must refuse
    # ---- isomorphism / automorphism
    for n1 in range(0, 6):
        for n2 in range(0, 6):
            if n1 * n2 <= 16 and (max(n1, n2) <= 4 or th):
                for G1 in graphs[n1]:
                    for G2 in graphs[n2]:
                        add('iso', G1, G2)
    for n in range(0, 5):
        for G in graphs[n]:
            add('auto', G)
    # ---- ordering
    flags = [(t, s, p, k) for t in FT for s in FT for p in FT for k in (0, 2, 3)]
    for size in range(0, 7):
        for (t, s, p, k) in flags:
            nv = comb(size, 2) if s else size * (size - 1)
            if nv <= V:
                add('op', size, t, s, p, k)
    for n in range(0, 7 if th else 6):
        for G in graphs[n]:
            for (t, s, p, k) in flags:
                nv = comb(n, 2) if s else n * (n - 1)
                if nv <= (V if th else 12):
                    if n == 5 and not th and (t or k):
                        continue
                    if n == 6 and k:
                        continue
                    add('gop', G, t, s, p, k)
    # ---- pebbling / stone
    for n in range(0, 7 if th else 6):
        for D in dags[n]:
            add('peb', D)
    for n in (2, 3):
        for es in scope.digraphs(n, loops=False):
            if any(u > v for u, v in es):      # not topologically sorted: both refuse
                add('peb', _g(n, es))
    for n in range(0, 5):
        for D in dags[n]:
            for s in range(0, 5):
                if s + n * s <= V:
                    add('stone', D, s)
    for n in range(0, 4):
        for s in range(0, 4):
            key = (n, s)
            bl = bips.get(key) or [_b(n, s, es) for es in scope.bipartite_graphs(n, s)]
            for D in dags[n]:
                for B in bl:
                    add('sstone', D, B)
    add('sstone', _g(2, [(1, 2)]), _b(3, 2, [(1, 1), (2, 2), (3, 1)]))   # sizes do not match
    add('sstone', _g(3, [(1, 2)]), _b(2, 2, [(1, 1), (2, 2)]))
    # ---- cpls
    for a in range(1, 4):
        for b in (1, 2, 3, 4):
            for c in (1, 2, 3, 4):
                lb = max(0, (b - 1).bit_length())
                lc = max(0, (c - 1).bit_length())
                if a * b * c + a * b * lb + b * lc <= V:
                    add('cpls', a, b, c)
    # ---- random families (same seed on both sides)
    for fam in ('randkcnf', 'randkxor'):
        for k in range(0, 4):
            for n in range(0, 6):
                for m in range(0, 7 if fam == 'randkcnf' else 5):
                    for sd in (1, 2) + ((3, 4) if th else ()):
                        add(fam, k, n, m, sd, None)
                        if n >= 1:
                            add(fam, k, n, m, sd, [[v if v % 2 else -v for v in range(1, n + 1)]])
    # ---- ramsey-type
    for N in range(0, V + 1):
        add('ptn', N)
    for s in range(1, 5):
        for k in range(1, 5):
            for N in range(0, 8):
                if comb(N, 2) <= V:
                    add('ram', s, k, N)
    for N in range(0, (16 if th else 12) + 1):
        for k1 in range(1, 5):
            for k2 in range(1, 5):
                add('vdw', N, k1, k2)
    for N in range(0, 7):
        for ks in itertools.product((1, 2, 3), repeat=3):
            if N * 3 <= V:
                add('vdw', N, *ks)
    for N in range(0, 6):
        for ks in itertools.product((2, 3), repeat=4):
            if N * 4 <= V:
                add('vdw', N, *ks)
    for n in range(0, 5):
        for k in range(0, 4):
            for c in range(0, 4):
                if comb(n, 2) + k * n + n * c <= V:
                    add('cliquecol', n, k, c)
    # ---- subgraph family
    for n in range(0, 7 if th else 6):
        for G in graphs[n]:
            bits = max(0, (n - 1).bit_length())
            for k in range(0, 5):
                for sb in FT:
                    if n == 6 and k > 2:
                        continue
                    if k * n <= V and (n <= 4 or k <= 3 or th):
                        add('kclique', G, k, sb)
                    if k * bits <= V and (n <= 4 or k <= 3 or th):
                        add('kcliquebin', G, k, sb)
                    if 1 + k * n <= V and k <= 3 and (n <= 4 or th):
                        for s in (0, 2):
                            add('ramlb', G, k, s, sb)
    for n in range(0, 6 if th else 5):
        for hn in range(0, 5):
            if hn * n <= 16 and (hn <= 3 or th):
                for G in graphs[n]:
                    for H in graphs[hn]:
                        for ind in FT:
                            for sb in FT:
                                add('subgraph', G, H, ind, sb)
    # ---- pitfall (random regular graph inside: same generator state)
    # (nz=1 raises IndexError and v=d raises NetworkXError in both classes: other properties)
    pit = [(2, 1, 1, 2, 2), (2, 1, 2, 2, 2), (2, 1, 3, 2, 2), (2, 1, 1, 3, 2), (3, 2, 1, 2, 2),
           (4, 2, 1, 2, 2), (4, 3, 2, 2, 2), (2, 1, 1, 2, 4), (4, 3, 3, 2, 2), (6, 3, 2, 2, 2),
           (2, 1, 1, 1, 2), (2, 1, 1, 2, 3), (2, 3, 1, 2, 2), (3, 3, 1, 2, 2), (2, 2, 1, 2, 2)]
    for p in pit:
        add('pitfall', *p)
        add('pitfall', *p, seed=7)
    # VERIF_SEED rotates a few additional mid-size instances (never the core)
    extra = [('php', 5, 4, False, False), ('php', 4, 5, True, True), ('count', 7, 2),
             ('cliquecol', 4, 2, 2), ('op', 5, False, False, True, 0), ('rphp', 3, 3, 3),
             ('vdw', 7, 2, 3, 2), ('ram', 3, 4, 7)]
    for i in range(3):
        e = extra[(seed + i) % len(extra)]
        add(e[0], *e[1:], extra=True)
    return cs


FILES = {
    'c4.kthlist': 'c a 4-cycle\n4\n1 : 2 4 0\n2 : 1 3 0\n3 : 2 4 0\n4 : 1 3 0\n',
    'p4.dimacs': 'c a path\np edge 4 3\ne 1 2\ne 2 3\ne 3 4\n',
    'k3.gml': 'graph [\n  node [\n    id 0\n    label "1"\n  ]\n  node [\n    id 1\n    label "2"\n  ]\n'
              '  node [\n    id 2\n    label "3"\n  ]\n  edge [\n    source 0\n    target 1\n  ]\n'
              '  edge [\n    source 0\n    target 2\n  ]\n  edge [\n    source 1\n    target 2\n  ]\n]\n',
    'paw.dot': 'strict graph {\n1;\n2;\n3;\n4;\n1 -- 2;\n1 -- 3;\n2 -- 3;\n3 -- 4;\n}\n',
    'd3.kthlist': 'c a dag\n3\n1 : 0\n2 : 1 0\n3 : 1 2 0\n',
    'd4.dimacs': 'c a dag\np edge 4 4\ne 1 3\ne 2 3\ne 1 4\ne 3 4\n',
    'b23.matrix': '2 3\n1 1 0\n0 1 1\n',
    'b33.matrix': '3 3\n1 1 0\n0 1 1\n1 1 1\n',
    'b22.kthlist': 'c bipartite\n4\n1 : 3 4 0\n2 : 4 0\n',
    'f1.cnf': 'p cnf 3 2\n1 -2 0\n2 3 0\n',
    # file names that contain the spelling of an option
    'in-T1.cnf': 'p cnf 3 2\n1 -2 0\n2 3 0\n',
    'f0.cnf': 'c no variables, no clauses\np cnf 0 0\n',
    'f0e.cnf': 'c no variables, the empty clause\np cnf 0 1\n0\n',
    'ring-T4.kthlist': 'c a 4-cycle\n4\n1 : 2 4 0\n2 : 1 3 0\n3 : 2 4 0\n4 : 1 3 0\n',
    'b-T-o-q.matrix': '2 3\n1 1 0\n0 1 1\n',
    'd-Txor.kthlist': 'c a dag\n3\n1 : 0\n2 : 1 0\n3 : 1 2 0\n',
    'f2.cnf': 'c with an empty clause\np cnf 2 2\n0\n1 2 0\n',
    'f3.cnf': 'c no clauses, unused variables\np cnf 4 0\n',
    'f4.cnf': 'p cnf 2 2\n1 1 0\n1 -1 2 0\n',
    'f5.cnf': 'p cnf 5 4\n1 2 3 4 5 0\n-1 -2 0\n-3 0\n4 -5 0\n',
}


def _f(name, fmt=None):
    return ([fmt] if fmt else []) + [PLACE + '/' + name]


def _files_of(tokens):
    out = {}
    for t in tokens:
        t = str(t)
        if t.startswith(PLACE + '/') and t[len(PLACE) + 1:] in FILES:
            out[t[len(PLACE) + 1:]] = FILES[t[len(PLACE) + 1:]]
    return out


def tool_cases(tier, seed):
    th = tier == 'thorough'
    cs = []

    def add(cmd, argv, lib=None, stdin=None, sd=None):
        argv = [str(x) for x in argv]
        full = (['--seed', str(sd)] if sd is not None else []) + [cmd] + argv
        c = {'lvl': 'tool', 'cmd': cmd, 'argv': full, 'limit': 22 if th else 18}
        fl = _files_of(full)
        if fl:
            c['files'] = fl
        if stdin is not None:
            c['stdin'] = stdin
        if lib is not None:
            lc = {'lvl': 'lib', 'fam': lib[0], 'args': list(lib[1:])}
            if sd is not None:
                lc['seed'] = sd
            c['lib'] = lc
        cs.append(c)

    def S(*spec):
        return [str(x) for x in spec]

    simple = [S('complete', 1), S('complete', 2), S('complete', 3), S('complete', 4),
              S('empty', 1), S('empty', 3), S('grid', 3), S('grid', 2, 2), S('torus', 3),
              S('torus', 4), S('complete', 2, 2), S('gnp', 4, '.5'),
              S('gnm', 4, 3), S('gnd', 4, 2), S('empty', 4, 'plantclique', 3),
              S('grid', 2, 2, 'addedges', 1), S('complete', 3, 'splitedges', 1),
              _f('c4.kthlist'), _f('p4.dimacs'), _f('p4.dimacs', 'dimacs'), _f('k3.gml'),
              _f('paw.dot'), S('complete', 0), S('nosuchfile.gml'), _f('ring-T4.kthlist')]
    if th:
        simple += [S('complete', 5), S('grid', 2, 3), S('grid', 4), S('empty', 5), S('gnp', 5, '.4'),
                   S('gnm', 5, 5), S('complete', 1, 3), S('grid', 2, 2, 'plantclique', 3)]
    tiny = [s for s in simple if s[0] in ('complete', 'empty', 'grid', 'torus') and len(s) == 2
            and s[1] in ('1', '2', '3')] + [_f('k3.gml')]
    dag = [S('path', 0), S('path', 1), S('path', 2), S('path', 3), S('pyramid', 0), S('pyramid', 1),
           S('tree', 1), _f('d3.kthlist'), _f('d4.dimacs'), _f('d4.dimacs', 'dimacs'), S('pyramid', 2),
           S('tree', 2), S('nosuch', 3), _f('d-Txor.kthlist')]
    bip = [S('complete', 1, 1), S('complete', 2, 2), S('complete', 2, 3), S('complete', 3, 2),
           S('empty', 2, 2), S('shift', 3, 3, 0, 1), S('regular', 3, 3, 2), S('glrp', 2, 3, '.5'),
           S('glrd', 3, 3, 2), S('glrm', 3, 3, 2), S('empty', 3, 3, 'plantbiclique', 2, 2),
           S('empty', 2, 2, 'addedges', 2), _f('b23.matrix'), _f('b33.matrix'), _f('b22.kthlist'),
           _f('b23.matrix', 'matrix'), S('complete', 0, 2), _f('b-T-o-q.matrix')]
    if th:
        bip += [S('complete', 4, 4), S('complete', 3, 5), S('regular', 4, 4, 3), S('shift', 4, 4, 0, 1, 2),
                S('glrp', 4, 4, '.5'), S('regular', 4, 4, 2, 'addedges', 1)]
    FT = (False, True)
    lim = 22 if th else 18

    def order(G):
        """number of vertices of a simple graph specification (used only to
        keep the instances below the bitmap limit)"""
        if G[0] in ('complete', 'empty', 'gnp', 'gnm', 'gnd'):
            n = int(G[1]) * (int(G[2]) if G[0] == 'complete' and len(G) > 2 and G[2].isdigit() else 1)
        elif G[0] in ('grid', 'torus'):
            n = 1
            for x in G[1:]:
                if not x.isdigit():
                    break
                n *= int(x)
        else:
            n = 4
        return n + (1 if 'splitedges' in G else 0)

    # ---- simple formulas
    for P in range(0, 5):
        for N in range(0, 5):
            add('and', [P, N])
            add('or', [P, N])
    add('true', [])
    add('false', [])
    add('true', ['1'])           # extra argument: both refuse
    # ---- php
    for fl in ([], ['--functional'], ['--onto'], ['--functional', '--onto']):
        f, o = '--functional' in fl, '--onto' in fl
        for N in range(0, 4):
            add('php', fl + [N], ('php', N + 1, N, f, o))
        for M in range(0, 6):
            for N in range(0, 6):
                if M * N <= (20 if th else 16):
                    add('php', [M, N] + fl, ('php', M, N, f, o))
        for (M, N, D) in [(3, 3, 3), (3, 3, 2), (4, 3, 1), (3, 4, 2), (3, 2, 3), (4, 4, 0), (5, 3, 2)]:
            add('php', fl + [M, N, D], ('php', M, N, f, o) if D == N else None)
            add('php', fl + [M, N, D], ('php', M, N, f, o) if D == N else None, sd=5)
        for B in bip:
            add('php', fl + B, ('gphp', {'spec': B}, f, o))
    add('php', [])
    add('php', [2, 2, 2, 2])
    add('php', ['-1', 2])
    # ---- bphp, rphp, cliquecoloring, count, parity
    for M in range(0, 5):
        for N in range(0, 9):
            add('bphp', [M, N], ('bphp', M, N))
    for M in range(0, 4):
        for T in range(0, 4):
            for N in range(0, 4):
                if M * T + T * N + T <= 18:
                    add('rphp', [M, T, N], ('rphp', M, T, N))
    for n in range(0, 5):
        for k in range(0, 4):
            for c in range(0, 4):
                if comb(n, 2) + k * n + n * c <= 18:
                    add('cliquecoloring', [n, k, c], ('cliquecol', n, k, c))
    for M in range(0, 9 if th else 8):
        for p in range(0, M + 2):
            if comb(M, p) <= (21 if th else 18):
                add('count', [M, p], ('count', M, p))
    for N in range(0, 8 if th else 7):
        add('parity', [N], ('count', N, 2))
    add('parity', ['-1'])
    # ---- formulas on simple graphs
    for G in [S('torus', 5), S('complete', 5)]:       # 10 edge variables
        gl = {'spec': G}
        add('matching', G, ('matching', gl))
        add('tiling', G, ('tiling', gl))
        add('ec', G, ('ec', gl))
        add('tseitin', ['first'] + G, ('tseitin', gl, 'first'))
        add('kcolor', [3] + G, ('kcolor', gl, 3, True))
    for G in simple:
        gl = {'spec': G}
        add('matching', G, ('matching', gl))
        add('tiling', G, ('tiling', gl))
        add('ec', G, ('ec', gl))
        if order(G) ** 2 <= lim:
            add('iso', G, ('auto', gl))
        for ch in ('first', 'zero', 'one'):
            add('tseitin', [ch] + G, ('tseitin', gl, ch))
        for ch in ('random', 'randomodd', 'randomeven'):
            add('tseitin', [ch] + G, None)
            add('tseitin', [ch] + G, None, sd=3)
        for k in range(0, 4):
            add('kcolor', [k] + G, ('kcolor', gl, k, True))
            add('kclique', [k] + G, ('kclique', gl, k, True))
            add('kclique', [k] + G + ['--no-symmetry-breaking'], ('kclique', gl, k, False))
            add('kcliquebin', [k] + G, ('kcliquebin', gl, k, True))
            for s in (0, 2):
                add('ramlb', [k, s] + G, ('ramlb', gl, k, s, True))
        for d in range(0, 4):
            if order(G) * (d + 1) <= lim:
                add('domset', [d] + G, ('domset', gl, d, False))
                add('domset', ['-a', d] + G, ('domset', gl, d, True))
        for fl in ([], ['--total'], ['--smart'], ['--knuth2'], ['--knuth3']):
            for pl in ([], ['--plant']):
                t, s = '--total' in fl, '--smart' in fl
                k = 2 if '--knuth2' in fl else 3 if '--knuth3' in fl else None
                add('op', fl + pl + G, ('gop', gl, t, s, bool(pl), k))
    for G in tiny:
        for H in tiny:
            add('subgraph', ['-G'] + G + ['-H'] + H, ('subgraph', {'spec': G}, {'spec': H}, False, False))
            add('iso', G + ['-e'] + H, None)
    add('subgraph', ['-G', 'complete', 3])
    add('tseitin', ['first'])
    add('tseitin', [])
    for a in ([5], [6, 3], [4, 3], [4, 2], [6], [5, 2], [3, 4], [3, 3], [5, 3], [4]):
        add('tseitin', a, None)
        add('tseitin', a, None, sd=11)
    # ---- ordering principle on numbers
    for fl in ([], ['--total'], ['--smart'], ['--knuth2'], ['--knuth3'], ['--total', '--smart']):
        for pl in ([], ['--plant']):
            t, s = '--total' in fl, '--smart' in fl
            k = 2 if '--knuth2' in fl else 3 if '--knuth3' in fl else None
            for N in range(0, 6 if th else 5):
                add('op', fl + pl + [N], ('op', N, t, s, bool(pl), k))
            for (N, d) in [(4, 2), (4, 3), (3, 2), (3, 3), (4, 0), (5, 2)]:
                add('op', fl + pl + [N, d], None, sd=4)
    # ---- subset cardinality
    for B in bip:
        add('subsetcard', B, ('subsetcard', {'spec': B}, False))
        add('subsetcard', ['-e'] + B, ('subsetcard', {'spec': B}, True))
    for a in ([3, 2], [4, 2], [4, 3], [3], [4], [3, 3], [4, 4]) + (([5], [5, 2]) if th else ()):
        for e in ([], ['--equal']):
            add('subsetcard', e + a, None)
            add('subsetcard', e + a, None, sd=9)
    # ---- cpls, pitfall
    for a in range(0, 3):
        for b in range(0, 5):
            for c in range(0, 5):
                lb = max(0, (b - 1).bit_length())
                lc = max(0, (c - 1).bit_length())
                if a * b * c + a * b * lb + b * lc <= 18:
                    add('cpls', [a, b, c], ('cpls', a, b, c))
    for p in [(2, 1, 1, 2, 2), (2, 1, 2, 2, 2), (2, 1, 1, 3, 2), (3, 2, 1, 2, 2), (4, 3, 2, 2, 2),
              (2, 1, 1, 2, 4), (2, 1, 1, 1, 2), (2, 1, 1, 2, 3), (2, 3, 1, 2, 2), (2, 2, 1, 2, 2),
              (0, 1, 1, 2, 2)]:
        add('pitfall', list(p), ('pitfall',) + p)
        add('pitfall', list(p), ('pitfall',) + p, sd=6)
        cs[-1]['limit'] = cs[-2]['limit'] = 22
    # ---- dimacs
    for name in ('f1.cnf', 'f2.cnf', 'f3.cnf', 'f4.cnf', 'f5.cnf', 'in-T1.cnf', 'f0.cnf', 'f0e.cnf'):
        add('dimacs', _f(name))
        add('dimacs', [], stdin=FILES[name])
    add('dimacs', [PLACE + '/missing.cnf'])
    add('dimacs', [], stdin='p cnf 2 1\n1 3 0\n')     # malformed: both refuse
    # ---- pebbling
    for D in dag:
        add('peb', D, ('peb', {'spec': D}))
        for s in range(0, 4):
            add('stone', [s] + D, ('stone', {'spec': D}, s))
        for (s, d) in [(2, 1), (2, 2), (3, 2), (2, 3)]:
            add('stone', [s] + D + ['--sparse', d], None)
            add('stone', [s, '--sparse', d] + D, None, sd=8)
    # ---- ramsey type
    for N in range(0, 19):
        add('ptn', [N], ('ptn', N))
    for s in range(0, 5):
        for k in range(0, 5):
            for N in range(0, 7):
                add('ram', [s, k, N], ('ram', s, k, N))
    for N in range(0, 11):
        for k1 in range(0, 4):
            for k2 in range(0, 4):
                add('vdw', [N, k1, k2], ('vdw', N, k1, k2))
    for N in range(0, 6):
        for ks in itertools.product((2, 3), repeat=3):
            add('vdw', [N] + list(ks), ('vdw', N) + ks)
    # ---- random formulas: same --seed on both tools
    for cmd in ('randkcnf', 'randkxor'):
        for k in range(0, 4):
            for n in range(0, 6):
                for m in range(0, 5):
                    for sd in (1, 2):
                        add(cmd, [k, n, m], (cmd, k, n, m, None, None), sd=sd)
                        if m in (1, 3) and k <= n:
                            add(cmd, ['-p', k, n, m], None, sd=sd)
                    if m == 2:
                        add(cmd, [k, n, m], None)       # no --seed: generator state still equal
    # ---- randomness both while parsing (random graph argument) and while
    # building (random charges / random default graph), with every seed of a
    # small alphabet that includes 0: both tools must restart the generator
    # at the same points
    for sd in (0, 1, 5):
        for g in (S('gnm', 5, 6), S('gnp', 4, '.5'), S('gnd', 6, 3),
                  S('gnp', 5, '.5', 'plantclique', 3, 'addedges', 1)):
            for charge in ('random', 'randomodd', 'randomeven', 'first'):
                add('tseitin', [charge] + g, None, sd=sd)
        for g in (S('glrd', 4, 4, 2), S('glrm', 3, 4, 6), S('regular', 4, 4, 2, 'addedges', 2)):
            add('subsetcard', g, None, sd=sd)
            add('php', g, None, sd=sd)
        add('tseitin', [5, 2], None, sd=sd)
        add('op', [5, 2], None, sd=sd)
        add('subsetcard', [4, 2], None, sd=sd)
        add('php', [4, 4, 2], None, sd=sd)
        add('pitfall', [4, 2, 2, 2, 2], None, sd=sd)
    # VERIF_SEED rotates a few additional mid-size instances
    extra = [('php', [5, 4], ('php', 5, 4, False, False)), ('count', [7, 2], ('count', 7, 2)),
             ('parity', [7], ('count', 7, 2)), ('op', [5], ('op', 5, False, False, False, None)),
             ('bphp', [6, 8], ('bphp', 6, 8)), ('ram', [3, 4, 7], ('ram', 3, 4, 7))]
    for i in range(2):
        e = extra[(seed + i) % len(extra)]
        add(e[0], e[1] + [], e[2])
        cs[-1]['extra'] = True
        cs[-1]['limit'] = 22
    return cs


def shards(tier, seed):
    th = tier == 'thorough'
    out = [('r000', 'run_registry', {'tier': tier, 'seed': seed})]
    bc = builder_cases(tier)
    for i, ch in enumerate(scope.stripe(bc, 4)):
        out.append(('b%03d' % i, 'run_cases', ch))
    k = 48 if th else 24
    for i in range(k):
        out.append(('l%03d' % i, 'run_lib_stripe', {'tier': tier, 'seed': seed, 'i': i, 'k': k}))
    tc = tool_cases(tier, seed)
    for i, ch in enumerate(scope.stripe(tc, 32)):
        out.append(('t%03d' % i, 'run_cases', ch))
    for i, c in enumerate(text_cases(tier)):
        out.append(('x%03d' % i, 'run_cases', [c]))
    return out


def run_registry(args, R):
    """The sub-commands registered by the two tools, compared with the boxes."""
    reg = registered_subcommands()
    both = sorted(set(reg['cnfgen']) & set(reg['pbgen']))
    boxes = sorted({c['cmd'] for c in tool_cases(args['tier'], args['seed'])})
    missing = [c for c in both if c not in boxes]
    if missing:
        raise RuntimeError('sub-command(s) %r are registered by both tools but have no argument '
                           'box in checks/c08_opb_vs_cnf.py:tool_cases' % (missing,))
    R.stats['tool_subcommands_registered_cnfgen'] = len(reg['cnfgen'])
    R.stats['tool_subcommands_registered_pbgen'] = len(reg['pbgen'])
    R.stats['tool_subcommands_covered'] = len([c for c in both if c in boxes])
    R.stats['tool_boxes_for_unregistered_subcommands'] = len([b for b in boxes if b not in both])
    only = sorted(set(reg['cnfgen']) ^ set(reg['pbgen']))
    R.stats['tool_subcommands_in_one_tool_only'] = len(only)
    fams = set()
    lib_cases(args['tier'], args['seed'], lambda c: fams.add(c['fam']))
    R.stats['lib_families_covered'] = len(fams & set(LIB_FAMILIES))
    # every family function of the package that takes formula_class has a box
    import inspect
    import cnfgen
    takers = sorted(name for name, f in vars(cnfgen).items()
                    if inspect.isfunction(f) and 'formula_class' in inspect.signature(f).parameters)
    R.stats['lib_functions_with_formula_class'] = len(takers)
    known = {'PigeonholePrinciple', 'GraphPigeonholePrinciple', 'BinaryPigeonholePrinciple',
             'RelativizedPigeonholePrinciple', 'CountingPrinciple', 'PerfectMatchingPrinciple',
             'TseitinFormula', 'SubsetCardinalityFormula', 'CliqueColoring', 'GraphColoringFormula',
             'EvenColoringFormula', 'DominatingSet', 'Tiling', 'GraphIsomorphism', 'GraphAutomorphism',
             'OrderingPrinciple', 'GraphOrderingPrinciple', 'PebblingFormula', 'StoneFormula',
             'SparseStoneFormula', 'CPLSFormula', 'RandomKCNF', 'RandomKXOR', 'PythagoreanTriples',
             'RamseyNumber', 'VanDerWaerden', 'CliqueFormula', 'BinaryCliqueFormula',
             'RamseyWitnessFormula', 'SubgraphFormula', 'PitfallFormula'}
    new = [t for t in takers if t not in known]
    if new:
        raise RuntimeError('family function(s) %r take formula_class but have no box in '
                           'checks/c08_opb_vs_cnf.py:lib_cases' % (new,))
    R.case(sample={'registered_in_both': both, 'one_tool_only': only}, nontrivial=True)


def run_lib_stripe(args, R):
    """cases number i, i+k, i+2k, ... of the library-level enumeration."""
    state = {'pos': 0, 'tmp': None}
    i, k = args['i'], args['k']

    held = []

    def sink(case):
        mine = state['pos'] % k == i
        state['pos'] += 1
        if mine:
            if args.get('reverse'):
                held.append(case)
            else:
                _run_one(case, R, state)
    lib_cases(args['tier'], args['seed'], sink)
    for case in reversed(held):
        _run_one(case, R, state)


def run_cases(chunk, R):
    state = {'tmp': None}
    try:
        for case in chunk:
            _run_one(case, R, state)
    finally:
        if state['tmp'] is not None:
            shutil.rmtree(state['tmp'], ignore_errors=True)


def _run_one(case, R, state):
    st = {}
    if case['lvl'] == 'text':
        vs = check_text(case, st)
        name = 'text:' + case['cmd']
        R.stats['printed_text_pairs'] += 1
        R.stats['printed_rows'] += sum(st.get('rows', (0, 0)))
        R.stats['components_compared'] += st.get('components', 0)
    elif case['lvl'] == 'tool':
        if state['tmp'] is None:
            state['tmp'] = tempfile.mkdtemp(prefix='c08_')
        vs = check_tool(case, st, state['tmp'])
        name = 'tool:' + case['cmd']
        R.stats['tool_pairs'] += 1
        if st.get('libref'):
            R.stats['tool_pairs_with_library_reference'] += 1
    else:
        vs = check_lib(case, st)
        name = ('builder:' + case['args'][0]) if case['fam'] == 'builder' else 'lib:' + case['fam']
        R.stats['builder_pairs' if case['fam'] == 'builder' else 'lib_pairs'] += 1
    R.case(sample=case if R.evals % 211 == 0 else None, nontrivial=bool(st.get('nontrivial')))
    R.outcomes[name] += 1
    if 'rejected' in st:
        R.stats['both_rejected'] += 1
        R.outcomes['both-rejected:' + st['rejected']] += 1
    if 'sat' in st:
        R.stats['sat_pairs' if st['sat'] else 'unsat_pairs'] += 1
    R.stats['assignments'] += st.get('assignments', 0)
    R.stats['native_pb_constraints'] += st.get('native', 0)
    if st.get('native'):
        R.stats['pairs_with_native_pb_constraints'] += 1
    if 'method' in st:
        R.stats['compared_by:' + st['method']] += 1
        if st['method'] == 'too-large-not-evaluated':
            R.stats['cap_hit'] += 1      # evidence is then not reported as exhaustive
    R.extend(vs)


ENGINE = 'tt+scope+cli'
TECHNIQUE = ('bounded exhaustive differential exploration: every input of a small scope is built twice '
             '(CNF class / cnfgen tool vs OPB class / pbgen tool) and the two results are compared on '
             'variable count, names and all 2^n assignments')
LEVEL_TEXT = ('Every constraint builder, every family function taking formula_class (all parameter '
              'tuples of a box, all labelled graphs up to 5 (6) vertices, all flags) and every sub-command '
              'registered by both tools (hand-written argument boxes) is built as CNF and as '
              'pseudo-Boolean formula; the two model sets are compared on all 2^n assignments '
              '(clauses bit-parallel, pseudo-Boolean constraints by bit-sliced arithmetic). The pbgen '
              'result must be a pseudo-Boolean object with the constraint list of the library OPB '
              'build. Exhaustive inside the scope; nothing is sampled.')
LEVEL_NOTE = ('Trusted: engine/tt (selftest against a per-assignment evaluator). Not covered: sizes beyond '
              'the scope; instances above the bitmap limit are compared clause by clause, which is '
              'complete only when the pseudo-Boolean side is clause-shaped (Pitfall is).')
