"""C16  Graph objects stay consistent under any sequence of updates.

Explicit-state breadth-first search (engine.bfs) over operation histories on
the REAL `Graph`, `DirectedGraph`, `BipartiteGraph` (and
`CompleteBipartiteGraph`) objects of cnfgen/graphs.py, to the FIXPOINT of the
state space bounded by a vertex cap.

  state       the real object + the reference model (number of vertices, set
              of edges actually inserted); canonical key = complete internal
              representation of the object (vars(), recursively) + the model
  transition  one real mutator call on a copy.deepcopy of the predecessor:
              add_edge(u,v) / remove_edge(u,v) for all u,v in -1..n+1 (out of
              range, negative and self loops included),
              update_vertex_number(k) for k in {-1,0,n-1,n,n+1,n+2},
              add_edges_from(two-edge lists, legal and illegal members in both
              positions, plus empty / generator / list-of-lists / 3-edge forms)
  invariant   in EVERY state every view is compared with the model: vertex
              count views, number_of_edges, len(edges()), the edge listing
              (sorted, each edge once, stable under re-iteration), membership
              `(u,v) in G.edges()` and has_edge for all pairs of -1..n+1,
              sorted neighbour / predecessor / successor / left / right lists,
              degrees, is_dag, to_networkx (nodes, edges, directedness) and
              Class.from_networkx(to_networkx()) with all views again
  transition oracle   legal insertions are accepted; insertions the type does
              not allow raise ValueError and leave the canonical representation
              untouched; duplicates / removals of absent edges / non-increasing
              vertex updates change nothing; any exception other than
              ValueError is a violation; add_edges_from is the sequence of
              add_edge calls (the legal prefix stays, then ValueError);
              the predecessor object is untouched by operations on its deep
              copy (copy independence)
"""
import copy
from collections import Counter

from engine import bfs
from engine.common import setup_paths

PROPERTY = 'C16'
LEVEL = 'model_checking'
EXHAUSTIVE = True
ENGINE = 'bfs'
RULE = ('one case = one distinct reachable state (distinct canonical key = complete internal '
        'representation of the real graph object + reference model) of a breadth-first search run '
        'to the fixpoint from every initial graph of the scope; in each state all views are '
        'compared with the model, and every operation of the alphabet (valid and invalid arguments) '
        'is executed on a deep copy (counted as transitions). A state is non-trivial when it is '
        'not an initial state or has at least one edge. The same abstract graph reached from '
        'different initial objects is a different state only because the objects differ (name).')
ASSUMPTIONS = [
    'vertex cap, quick: simple graphs grow from every initial size 0..4 (and from complete, star, '
    'empty, null, named and networkx-built graphs) up to 4 vertices, plus all 2^10 graphs on 5 '
    'vertices with the add/remove alphabet; directed graphs (loops allowed) of 0..3 vertices; '
    'bipartite graphs of every size up to 2x3 and 3x3; CompleteBipartiteGraph up to 2x3',
    'vertex cap, thorough: additionally growth from every initial size 0..5 up to 5 vertices with '
    'all two-edge lists, all 2^15 graphs on 6 vertices and all 2^16 directed graphs on 4 vertices '
    '(add/remove alphabet; each space partitioned among 16 searches by the presence of 4 pairs: a '
    'transition that changes one of those pairs is executed, judged and its successor checked, and '
    'the successor is explored by the search that owns it), bipartite graphs 2x4, 4x2, 3x4, 4x3',
    'arguments are Python ints in -1..n+1 (n+2 for vertex growth); non-integer arguments are not '
    'explored',
    'add_edges_from is read as the sequence of add_edge calls it is written as (legal prefix '
    'stays, then ValueError); lists have 0, 2 or 3 members (first member: every pair of 0..n+1, '
    'second member: 11 representatives) and come as list, tuple, generator or list of lists',
    'a duplicate insertion and every refused request must leave the complete internal '
    'representation equal, not only the views ("change nothing", "without side effect")',
    'removing an absent edge and a non-increasing update_vertex_number may either do nothing or '
    'raise ValueError; if they alter the representation all views must still agree with the model',
    'out-of-range vertices in neighbour/degree queries: ValueError or an empty answer are both '
    'accepted (the property speaks about updates, not about queries on non-vertices); '
    'CompleteBipartiteGraph.add_edge ignoring every argument silently is accepted (no side effect)',
    'for a DirectedGraph a self loop (u,u) may be inserted or refused; if inserted it is an edge '
    'that does not go from a lower to a higher vertex',
    'trusted: the reference model (n, set of pairs) and engine/bfs.py; networkx is trusted as the '
    'container produced by to_networkx',
]
TECHNIQUE = ('explicit-state BFS over all operation histories on the real objects to the fixpoint '
             'under a vertex cap; full-representation state keys; reference-model comparison of all '
             'views in every state; oracle on every transition')
LEVEL_TEXT = ('Explicit-state model checking of the real Graph/DirectedGraph/BipartiteGraph objects: '
              'breadth-first search over all histories of add_edge, remove_edge, update_vertex_number '
              'and add_edges_from calls (valid and invalid arguments) from every initial size, run to '
              'the fixpoint of the state space bounded by the vertex cap; states are merged only on '
              'equal complete internal representation; every state is compared view by view with a '
              'reference model and round-tripped through networkx; every transition is checked '
              '(accept / refuse without side effect / no-op, deep-copy independence).')
LEVEL_NOTE = ('Fixpoint reached in every run (stat bfs_fixpoint_reached = bfs_runs, no cap_hit). '
              'Bounded by the vertex cap and by integer arguments in -1..n+2; not covered: larger '
              'graphs, non-integer arguments, the random helpers built on these mutators '
              '(split_random_edges, add_random_missing_edges: C15).')


def VACUITY(tier):
    return {
        'bfs_fixpoint_reached': len(runs(tier, 0)),
        'large_history_operations': 500,
        'from_networkx_orders': 5000,
        'states': 1500 if tier == 'quick' else 100000,
        'transitions': 100000 if tier == 'quick' else 1000000,
        'op:Graph.add_edge:legal-new:accepted': 100,
        'op:Graph.add_edge:duplicate:noop': 100,
        'op:Graph.add_edge:self-loop:refused': 100,
        'op:Graph.add_edge:out-of-range:refused': 100,
        'op:Graph.remove_edge:present:accepted': 100,
        'op:Graph.remove_edge:absent:noop': 100,
        'op:Graph.update_vertex_number:larger:accepted': 20,
        'op:Graph.update_vertex_number:negative:refused': 20,
        'op:Graph.add_edges_from:illegal-later:refused': 100,
        'op:DirectedGraph.add_edge:legal-new:accepted': 100,
        'op:DirectedGraph.add_edge:out-of-range:refused': 100,
        'op:BipartiteGraph.add_edge:legal-new:accepted': 100,
        'op:BipartiteGraph.add_edge:out-of-range:refused': 100,
        'digraph_states_acyclic': 10,
        'digraph_states_cyclic': 20,
        'networkx_roundtrips': 1500 if tier == 'quick' else 100000,
    }


def preload():
    setup_paths()
    import cnfgen  # noqa
    import cnfgen.graphs  # noqa
    import networkx  # noqa


# tolerated-but-noteworthy observations, flushed into R.outcomes by the shard
OBS = Counter()


# ===================================================================== state ==
class St:
    """The real object together with its reference model."""
    __slots__ = ('G', 'kind', 'dims', 'E', 'cap', 'afe', 'image', 'frozen')

    def __init__(self, G, kind, dims, E, cap, afe, image=None, frozen=frozenset()):
        self.G = G
        self.kind = kind          # 'simple' | 'directed' | 'bipartite' | 'cbg'
        self.dims = dims          # (n,) or (L, R)
        self.E = set(E)           # simple: (u,v) with u<v; others: (u,v)
        self.cap = cap            # maximal number of vertices (simple graphs)
        self.afe = afe            # add_edges_from alphabet: 'full' | 'few' | 'none' | 'slice:i:k'
        self.image = image        # canon(G) when key() was last computed
        # partition of a large space among several searches: the presence of
        # these pairs is fixed in this search; a transition that changes one of
        # them is executed and judged, its successor state is checked once,
        # and then left to the search that owns it
        self.frozen = frozen

    def __deepcopy__(self, memo):
        # the real object is copied by copy.deepcopy; the model is rebuilt; the
        # (immutable) canonical image taken at admission is shared
        return St(copy.deepcopy(self.G, memo), self.kind, self.dims, self.E,
                  self.cap, self.afe, self.image, self.frozen)


def cls_of(kind):
    from cnfgen import graphs
    return {'simple': graphs.Graph, 'directed': graphs.DirectedGraph,
            'bipartite': graphs.BipartiteGraph,
            'cbg': graphs.CompleteBipartiteGraph}[kind]


CLSNAME = {'simple': 'Graph', 'directed': 'DirectedGraph',
           'bipartite': 'BipartiteGraph', 'cbg': 'CompleteBipartiteGraph'}


def key(st):
    """Always recomputed from the object (never trusted from a cache)."""
    st.image = bfs.canon(st.G)
    return (st.image, st.kind, st.dims, tuple(sorted(st.E)))


# ------------------------------------------------------------ initial states --
def build_initial(kind, init, cap, afe):
    """Initial object built through a public constructor + the model stated by
    the documentation of that constructor."""
    import networkx
    from cnfgen import graphs
    how = init[0]
    if how == 'ctor_part':
        # one part of a partitioned space: n vertices, the pairs `frozen` keep
        # the presence given by `present` throughout this search
        n, frozen, present = init[1], [tuple(e) for e in init[2]], [tuple(e) for e in init[3]]
        G = graphs.Graph(n) if kind == 'simple' else graphs.DirectedGraph(n)
        for (u, v) in present:
            G.add_edge(u, v)
        return St(G, kind, (n,), present, cap, afe, frozen=frozenset(frozen))
    if kind == 'simple':
        if how == 'ctor':
            n = init[1]
            return St(graphs.Graph(n), kind, (n,), (), cap, afe)
        if how == 'ctor_named':
            n = init[1]
            return St(graphs.Graph(n, init[2]), kind, (n,), (), cap, afe)
        if how == 'null_graph':
            return St(graphs.Graph.null_graph(), kind, (0,), (), cap, afe)
        if how == 'empty_graph':
            n = init[1]
            return St(graphs.Graph.empty_graph(n), kind, (n,), (), cap, afe)
        if how == 'complete_graph':
            n = init[1]
            E = [(u, v) for u in range(1, n + 1) for v in range(u + 1, n + 1)]
            return St(graphs.Graph.complete_graph(n), kind, (n,), E, cap, afe)
        if how == 'star_graph':
            k = init[1]
            E = [(u, k + 1) for u in range(1, k + 1)]
            return St(graphs.Graph.star_graph(k), kind, (k + 1,), E, cap, afe)
        if how == 'from_networkx':
            n, edges = init[1], [tuple(e) for e in init[2]]
            X = networkx.Graph()
            X.add_nodes_from(range(1, n + 1))
            X.add_edges_from(edges)
            E = [(min(u, v), max(u, v)) for (u, v) in edges]
            return St(graphs.Graph.from_networkx(X), kind, (n,), E, cap, afe)
    if kind == 'directed':
        if how == 'ctor':
            n = init[1]
            return St(graphs.DirectedGraph(n), kind, (n,), (), cap, afe)
        if how == 'dag_path':
            ln = init[1]
            E = [(i, i + 1) for i in range(1, ln + 1)]
            return St(graphs.dag_path(ln), kind, (ln + 1,), E, cap, afe)
        if how == 'from_networkx':
            n, edges = init[1], [tuple(e) for e in init[2]]
            X = networkx.DiGraph()
            X.add_nodes_from(range(1, n + 1))
            X.add_edges_from(edges)
            return St(graphs.DirectedGraph.from_networkx(X), kind, (n,), edges, cap, afe)
    if kind == 'bipartite':
        if how == 'ctor':
            L, Rr = init[1], init[2]
            return St(graphs.BipartiteGraph(L, Rr), kind, (L, Rr), (), cap, afe)
        if how == 'from_networkx':
            L, Rr, edges = init[1], init[2], [tuple(e) for e in init[3]]
            X = networkx.Graph()
            X.add_nodes_from(range(1, L + 1), bipartite=0)
            X.add_nodes_from(range(L + 1, L + Rr + 1), bipartite=1)
            X.add_edges_from((u, L + v) for (u, v) in edges)
            return St(graphs.BipartiteGraph.from_networkx(X), kind, (L, Rr), edges, cap, afe)
    if kind == 'cbg':
        if how == 'ctor':
            L, Rr = init[1], init[2]
            E = [(u, v) for u in range(1, L + 1) for v in range(1, Rr + 1)]
            return St(graphs.CompleteBipartiteGraph(L, Rr), kind, (L, Rr), E, cap, afe)
    raise KeyError((kind, init))


# ================================================================= alphabet ==
def _second_edges(first, lo_u, hi_u, lo_v, hi_v):
    """Representative second members of a two-edge list: the same edge again,
    its reverse, the smallest and the largest legal pair, an out-of-range pair
    on each side, a self loop, a pair completely outside."""
    u, v = first
    cands = [(u, v), (v, u), (1, 2), (2, 1), (hi_u - 1, hi_v - 1), (hi_u - 1, 1),
             (0, 1), (1, hi_v), (hi_u, 1), (1, 1), (hi_u, hi_v)]
    out = []
    for c in cands:
        if c not in out:
            out.append(c)
    return out


def operations(st):
    ops = []
    if st.kind == 'simple':
        n = st.dims[0]
        rng = range(-1, n + 2)
        for u in rng:
            for v in rng:
                ops.append(['add_edge', u, v])
                ops.append(['remove_edge', u, v])
        for k in sorted({-1, 0, n - 1, n, n + 1, n + 2}):
            if k <= st.cap:
                ops.append(['update_vertex_number', k])
        hi_u = hi_v = n + 1
        pool_u = pool_v = range(0, n + 2)
    elif st.kind == 'directed':
        n = st.dims[0]
        rng = range(-1, n + 2)
        for u in rng:
            for v in rng:
                ops.append(['add_edge', u, v])
        hi_u = hi_v = n + 1
        pool_u = pool_v = range(0, n + 2)
    else:
        L, Rr = st.dims
        for u in range(-1, L + 2):
            for v in range(-1, Rr + 2):
                ops.append(['add_edge', u, v])
        hi_u, hi_v = L + 1, Rr + 1
        pool_u, pool_v = range(0, L + 2), range(0, Rr + 2)
    # numbers that are no vertices although they lie inside the range (the
    # property quantifies over arbitrary invalid arguments; seeded change
    # C16-s23 and the defect repaired by the fix commit of section 8)
    if st.kind != 'cbg':
        for a, b in ((1.5, 2), (1, 2.5), (2.5, 1), (1.5, 1.5), (0.5, 1), (1, hi_v + 0.5)):
            # (numbers equal to an integer, 2.0, are left out: whether they name vertex 2 is not stated)
            ops.append(['add_edge', a, b])
    if st.afe != 'none':
        firsts = [(u, v) for u in pool_u for v in pool_v]
        if st.afe == 'few':
            firsts = [f for f in firsts if f in ((1, 2), (2, 1), (1, 1), (0, 1), (hi_u - 1, hi_v - 1))]
        elif st.afe.startswith('slice:'):
            # the two-edge lists are dealt out to k runs of the same search
            _, i, k = st.afe.split(':')
            firsts = firsts[int(i)::int(k)]
        for f in firsts:
            for s in _second_edges(f, 0, hi_u, 0, hi_v):
                ops.append(['add_edges_from', [list(f), list(s)], 'list'])
        ops.append(['add_edges_from', [], 'list'])
        ops.append(['add_edges_from', [], 'gen'])
        three = [[1, 2], [hi_u - 1, hi_v - 1], [2, 1]]
        bad3 = [[1, 2], [0, 0], [2, 1]]
        for form in ('list', 'gen', 'tuple', 'lists'):
            ops.append(['add_edges_from', three, form])
            ops.append(['add_edges_from', bad3, form])
    return ops


def _container(edges, form):
    if form == 'list':
        return [tuple(e) for e in edges]
    if form == 'tuple':
        return tuple(tuple(e) for e in edges)
    if form == 'lists':
        return [list(e) for e in edges]
    if form == 'gen':
        return (tuple(e) for e in edges)
    raise KeyError(form)


# ------------------------------------------------------- reference semantics --
def edge_class(st, u, v):
    """'not-an-integer' | 'out-of-range' | 'self-loop' | 'legal' for an
    insertion request."""
    if type(u) is not int or type(v) is not int:
        return 'not-an-integer'
    if st.kind in ('simple', 'directed'):
        n = st.dims[0]
        if not (1 <= u <= n and 1 <= v <= n):
            return 'out-of-range'
        if u == v:
            return 'self-loop'
        return 'legal'
    L, Rr = st.dims
    if not (1 <= u <= L and 1 <= v <= Rr):
        return 'out-of-range'
    return 'legal'


def norm(st, u, v):
    if st.kind == 'simple':
        return (min(u, v), max(u, v))
    return (u, v)


def apply(st, op):
    """One transition on the private copy `st`: call the real mutator, update
    the model, judge the outcome."""
    G = st.G
    cname = CLSNAME[st.kind]
    name = op[0]
    # canonical image of the predecessor, taken when the search computed its
    # key; the private copy is compared against it after the operation
    before = st.image if st.image is not None else bfs.canon(G)
    after = []
    problems = []
    touched = []          # pairs whose presence this operation changes

    def image_after():
        if not after:
            after.append(bfs.canon(G))
        return after[0]

    def run(f, *a):
        try:
            f(*a)
            return None
        except Exception as e:          # noqa: every exception type is judged
            return e

    def judge(argclass, exc, must_refuse, may_refuse, model_changes):
        """must_refuse: ValueError required; may_refuse: ValueError tolerated."""
        fam = '%s.%s:%s' % (cname, name, argclass)
        if argclass == 'not-an-integer' and isinstance(exc, TypeError):
            # a number that is no vertex at all: TypeError refuses it as well
            # as ValueError does; what matters is "without side effect"
            exc = ValueError(str(exc))
        if exc is not None and not isinstance(exc, ValueError):
            problems.append((fam + ':exception:' + type(exc).__name__,
                             '%s%r raised %s(%s) (only ValueError may refuse a request)'
                             % (name, tuple(op[1:]), type(exc).__name__, exc)))
            return 'exception'
        if must_refuse and exc is None:
            problems.append((fam + ':accepted',
                             '%s%r is not allowed for a %s with dims %r but was not refused'
                             % (name, tuple(op[1:]), cname, st.dims)))
            return 'accepted'
        if exc is not None and not (must_refuse or may_refuse):
            problems.append((fam + ':refused',
                             '%s%r is a legal request on a %s with dims %r but raised ValueError(%s)'
                             % (name, tuple(op[1:]), cname, st.dims, exc)))
            return 'refused'
        if not model_changes and image_after() != before:
            if exc is None and name in ('remove_edge', 'update_vertex_number'):
                # the property demands "changes nothing" of duplicate insertions
                # and "no side effect" of refusals; of a removal / vertex update
                # that has nothing to do it demands that the views still agree
                found = invariant(st)
                if found:
                    problems.append((fam + ':views-disagree',
                                     '%s%r had nothing to do, yet afterwards %s (%d view(s) disagree: %s)'
                                     % (name, tuple(op[1:]), found[0][1], len(found),
                                        ', '.join(sorted({sy for sy, _ in found})[:6]))))
                    return 'side-effect'
                OBS['tolerated:%s:representation-changed-views-agree' % fam] += 1
                return 'noop'
            problems.append((fam + (':refused-with-side-effect' if exc is not None
                                    else ':changed-something'),
                             '%s%r must leave the graph as it was (%s) but the internal '
                             'representation changed'
                             % (name, tuple(op[1:]),
                                'refused request' if exc is not None else 'nothing to do')))
            return 'side-effect'
        if exc is not None:
            return 'refused'
        return 'accepted' if model_changes else 'noop'

    if name == 'add_edge':
        u, v = op[1], op[2]
        exc = run(G.add_edge, u, v)
        c = edge_class(st, u, v)
        if st.kind == 'cbg':
            # every legal edge is already there; anything else must not matter
            verdict = judge(c if c != 'legal' else 'duplicate', exc, False, c != 'legal', False)
            if c != 'legal' and exc is None:
                OBS['tolerated:CompleteBipartiteGraph.add_edge:%s:silently-ignored' % c] += 1
            tag = c if c != 'legal' else 'duplicate'
        elif c == 'legal':
            e = norm(st, u, v)
            if e in st.E:
                verdict = judge('duplicate', exc, False, False, False)
                tag = 'duplicate'
            else:
                verdict = judge('legal-new', exc, False, False, True)
                st.E.add(e)
                touched.append(e)
                tag = 'legal-new'
        elif c == 'self-loop' and st.kind == 'directed':
            # not excluded by the property for directed graphs: inserted or refused
            e = (u, v)
            if exc is not None:
                verdict = judge('self-loop', exc, False, True, False)
            elif e in st.E:
                verdict = judge('self-loop-duplicate', exc, False, False, False)
            else:
                verdict = judge('self-loop', exc, False, False, True)
                st.E.add(e)
                touched.append(e)
            tag = 'self-loop'
        else:
            verdict = judge(c, exc, True, False, False)
            tag = c
    elif name == 'remove_edge':
        u, v = op[1], op[2]
        exc = run(G.remove_edge, u, v)
        c = edge_class(st, u, v)
        e = norm(st, u, v)
        if c == 'legal' and e in st.E:
            verdict = judge('present', exc, False, False, True)
            st.E.discard(e)
            touched.append(e)
            tag = 'present'
        else:
            tag = 'absent' if c == 'legal' else c
            verdict = judge(tag, exc, False, True, False)
    elif name == 'update_vertex_number':
        k = op[1]
        n = st.dims[0]
        exc = run(G.update_vertex_number, k)
        if k < 0:
            tag = 'negative'
            verdict = judge(tag, exc, False, True, False)
        elif k <= n:
            tag = 'smaller' if k < n else 'equal'
            verdict = judge(tag, exc, False, True, False)
        else:
            tag = 'larger'
            verdict = judge(tag, exc, False, False, True)
            st.dims = (k,)
    elif name == 'add_edges_from':
        edges, form = op[1], op[2]
        exc = run(G.add_edges_from, _container(edges, form))
        # the documented reading: for u, v in edges: add_edge(u, v)
        changed = False
        illegal_at = None
        for i, (u, v) in enumerate(edges):
            c = edge_class(st, u, v)
            if st.kind == 'cbg':
                continue
            if c == 'self-loop' and st.kind == 'directed' and isinstance(exc, ValueError) \
                    and _call(G.has_edge, u, v) == ('ok', False):
                # an implementation may refuse loops in directed graphs
                illegal_at = i
                break
            if c == 'legal' or (c == 'self-loop' and st.kind == 'directed'):
                e = norm(st, u, v)
                if e not in st.E:
                    st.E.add(e)
                    touched.append(e)
                    changed = True
            else:
                illegal_at = i
                break
        if st.kind == 'cbg':
            tag = 'any'
            verdict = judge(tag, exc, False, True, False)
        elif illegal_at is None:
            tag = 'empty' if not edges else 'all-legal'
            verdict = judge(tag, exc, False, False, changed)
        else:
            tag = 'illegal-first' if illegal_at == 0 else 'illegal-later'
            verdict = judge(tag, exc, True, False, changed)
    else:
        raise KeyError(name)
    st.image = image_after()
    follow = True
    if st.frozen and any(e in st.frozen for e in touched):
        # the successor belongs to another part of the partitioned space:
        # check it here, once, and do not continue from it in this search
        follow = False
        if not problems:
            problems.extend(invariant(st))
            OBS['boundary_states_checked'] += 1
    return bfs.Step(st, problems, 'op:%s.%s:%s:%s' % (cname, name, tag, verdict),
                    key=(st.image, st.kind, st.dims, tuple(sorted(st.E))), follow=follow)


# ================================================================ invariant ==
def _call(f, *a):
    try:
        return ('ok', f(*a))
    except Exception as e:      # noqa
        return ('exc', type(e).__name__, str(e))


class Views:
    """Collects the disagreements between the views of one object and the
    model."""

    def __init__(self, cname, prefix=''):
        self.cname = cname
        self.prefix = prefix
        self.problems = []
        self.vandal = False

    def bad(self, view, symptom, what):
        self.problems.append(('%s%s.%s:%s' % (self.prefix, self.cname, view, symptom), what))

    def same(self, view, got, want, note=''):
        """got = result of _call; want = value demanded by the model"""
        if got[0] == 'exc':
            self.bad(view, 'exception:' + got[1],
                     '%s%s raised %s(%s), the model says %r' % (view, note, got[1], got[2], want))
            return False
        if got[1] != want:
            self.bad(view, 'mismatch', '%s%s gives %r, the model says %r' % (view, note, got[1], want))
            return False
        if self.vandal and isinstance(got[1], list):
            # a list handed out by the object belongs to the caller: it is
            # edited here, and the views are read once more afterwards
            got[1].append(-7)
            got[1].reverse()
        return True

    def non_vertex(self, view, got, u):
        """query about a vertex that does not exist: ValueError, or an answer
        that says 'nothing there'"""
        if got[0] == 'exc':
            if got[1] != 'ValueError':
                self.bad(view, 'non-vertex:exception:' + got[1],
                         '%s(%d) on a non-vertex raised %s(%s)' % (view, u, got[1], got[2]))
            return
        if got[1] not in ([], 0):
            self.bad(view, 'non-vertex:nonempty',
                     '%s(%d) on a non-vertex answers %r' % (view, u, got[1]))
        else:
            OBS['tolerated:%s.%s:non-vertex:empty-answer' % (self.cname, view)] += 1

    def listing(self, view, got, want_sorted, normalise=None):
        """edge listing: sorted as given, each edge once, exactly the model"""
        if got[0] == 'exc':
            self.bad(view, 'exception:' + got[1], 'list(%s) raised %s(%s)' % (view, got[1], got[2]))
            return
        lst = got[1]
        try:
            shaped = all(isinstance(e, tuple) and len(e) == 2 for e in lst)
        except Exception:
            shaped = False
        if not shaped:
            self.bad(view, 'shape', 'list(%s) = %r is not a list of pairs' % (view, lst))
            return
        edges = [normalise(e) for e in lst] if normalise else list(lst)
        if len(set(edges)) != len(edges):
            self.bad(view, 'duplicate', 'list(%s) = %r lists an edge twice' % (view, lst))
            return
        if set(edges) != set(want_sorted):
            self.bad(view, 'mismatch', 'list(%s) = %r, inserted edges are %r' % (view, lst, want_sorted))
            return
        if list(lst) != list(want_sorted):
            self.bad(view, 'not-sorted', 'list(%s) = %r is not in the documented order %r'
                     % (view, lst, want_sorted))


def check_simple(G, n, E, V, roundtrip=True):
    import networkx
    cls = cls_of('simple')
    m = len(E)
    want = sorted(E)
    V.same('number_of_vertices', _call(G.number_of_vertices), n)
    V.same('order', _call(G.order), n)
    V.same('__len__', _call(len, G), n)
    V.same('vertices', _call(lambda: list(G.vertices())), list(range(1, n + 1)))
    V.same('number_of_edges', _call(G.number_of_edges), m)
    V.same('edges.__len__', _call(lambda: len(G.edges())), m)
    first = _call(lambda: list(G.edges()))
    V.listing('edges', first, want, normalise=lambda e: (min(e), max(e)))
    V.same('edges:second-iteration', _call(lambda: list(G.edges())), first[1] if first[0] == 'ok' else None)
    # membership: all pairs of -1..n+1, both orientations
    view = _call(G.edges)
    for u in range(-1, n + 2):
        for v in range(-1, n + 2):
            w = (u != v) and ((min(u, v), max(u, v)) in E)
            if not V.same('has_edge', _call(lambda: bool(G.has_edge(u, v))), w, '(%d,%d)' % (u, v)):
                break
            if view[0] == 'ok' and not V.same('edges.__contains__',
                                               _call(lambda: bool((u, v) in view[1])), w,
                                               ' (%d,%d)' % (u, v)):
                break
    adj = {u: [] for u in range(1, n + 1)}
    for (u, v) in want:
        adj[u].append(v)
        adj[v].append(u)
    for u in range(1, n + 1):
        V.same('neighbors', _call(lambda: list(G.neighbors(u))), sorted(adj[u]), '(%d)' % u)
        V.same('degree', _call(G.degree, u), len(adj[u]), '(%d)' % u)
    for u in (-1, 0, n + 1):
        V.non_vertex('neighbors', _call(lambda: list(G.neighbors(u))), u)
        V.non_vertex('degree', _call(G.degree, u), u)
    if not roundtrip:
        return
    X = _call(G.to_networkx)
    if X[0] == 'exc':
        V.bad('to_networkx', 'exception:' + X[1], 'to_networkx raised %s(%s)' % (X[1], X[2]))
        return
    X = X[1]
    if not isinstance(X, networkx.Graph) or X.is_directed() or X.is_multigraph():
        V.bad('to_networkx', 'type', 'to_networkx gives a %s' % type(X).__name__)
        return
    V.same('to_networkx:nodes', _call(lambda: sorted(X.nodes())), list(range(1, n + 1)))
    V.same('to_networkx:edges', _call(lambda: sorted((min(e), max(e)) for e in X.edges())), want)
    V.same('to_networkx:number_of_edges', ('ok', X.number_of_edges()), m)
    back = _call(cls.from_networkx, X)
    OBS['networkx_roundtrips'] += 1
    if back[0] == 'exc':
        V.bad('from_networkx', 'exception:' + back[1],
              'Graph.from_networkx(G.to_networkx()) raised %s(%s)' % (back[1], back[2]))
        return
    if not isinstance(back[1], cls):
        V.bad('from_networkx', 'type', 'from_networkx gives a %s' % type(back[1]).__name__)
        return
    W = Views(V.cname, V.prefix + 'roundtrip:')
    check_simple(back[1], n, E, W, roundtrip=False)
    V.problems.extend(W.problems)


def check_directed(G, n, E, V, roundtrip=True):
    import networkx
    cls = cls_of('directed')
    m = len(E)
    want = sorted(E)
    want_by_dest = sorted(E, key=lambda e: (e[1], e[0]))
    V.same('number_of_vertices', _call(G.number_of_vertices), n)
    V.same('order', _call(G.order), n)
    V.same('__len__', _call(len, G), n)
    V.same('vertices', _call(lambda: list(G.vertices())), list(range(1, n + 1)))
    V.same('number_of_edges', _call(G.number_of_edges), m)
    V.same('edges.__len__', _call(lambda: len(G.edges())), m)
    V.same('edges_ordered_by_successors.__len__',
           _call(lambda: len(G.edges_ordered_by_successors())), m)
    first = _call(lambda: list(G.edges()))
    V.listing('edges', first, want)
    V.same('edges:second-iteration', _call(lambda: list(G.edges())), first[1] if first[0] == 'ok' else None)
    V.listing('edges_ordered_by_successors', _call(lambda: list(G.edges_ordered_by_successors())),
              want_by_dest)
    view = _call(G.edges)
    view2 = _call(G.edges_ordered_by_successors)
    for u in range(-1, n + 2):
        for v in range(-1, n + 2):
            w = (u, v) in E
            if not V.same('has_edge', _call(lambda: bool(G.has_edge(u, v))), w, '(%d,%d)' % (u, v)):
                break
            if view[0] == 'ok' and not V.same('edges.__contains__',
                                               _call(lambda: bool((u, v) in view[1])), w,
                                               ' (%d,%d)' % (u, v)):
                break
            if view2[0] == 'ok' and not V.same('edges_ordered_by_successors.__contains__',
                                                _call(lambda: bool((u, v) in view2[1])), w,
                                                ' (%d,%d)' % (u, v)):
                break
    for u in range(1, n + 1):
        pred = sorted(a for (a, b) in E if b == u)
        succ = sorted(b for (a, b) in E if a == u)
        V.same('predecessors', _call(lambda: list(G.predecessors(u))), pred, '(%d)' % u)
        V.same('successors', _call(lambda: list(G.successors(u))), succ, '(%d)' % u)
        V.same('in_degree', _call(G.in_degree, u), len(pred), '(%d)' % u)
        V.same('out_degree', _call(G.out_degree, u), len(succ), '(%d)' % u)
    for u in (-1, 0, n + 1):
        V.non_vertex('predecessors', _call(lambda: list(G.predecessors(u))), u)
        V.non_vertex('successors', _call(lambda: list(G.successors(u))), u)
        V.non_vertex('in_degree', _call(G.in_degree, u), u)
        V.non_vertex('out_degree', _call(G.out_degree, u), u)
    increasing = all(u < v for (u, v) in E)
    got = _call(lambda: bool(G.is_dag()))
    if got[0] == 'exc':
        V.bad('is_dag', 'exception:' + got[1], 'is_dag raised %s(%s)' % (got[1], got[2]))
    elif got[1] != increasing:
        if got[1]:
            offending = [e for e in want if e[0] >= e[1]]
            V.bad('is_dag', 'acyclic-with-%s-edge' % ('loop' if all(a == b for a, b in offending)
                                                      else 'backward'),
                  'is_dag() is True but the inserted edges %r do not go from a lower to a higher vertex'
                  % (offending,))
        else:
            V.bad('is_dag', 'cyclic-with-forward-edges-only',
                  'is_dag() is False but every inserted edge %r goes from a lower to a higher vertex'
                  % (want,))
    if not roundtrip:
        return
    OBS['digraph_states_acyclic' if increasing else 'digraph_states_cyclic'] += 1
    X = _call(G.to_networkx)
    if X[0] == 'exc':
        V.bad('to_networkx', 'exception:' + X[1], 'to_networkx raised %s(%s)' % (X[1], X[2]))
        return
    X = X[1]
    if not isinstance(X, networkx.DiGraph) or X.is_multigraph():
        V.bad('to_networkx', 'type', 'to_networkx gives a %s' % type(X).__name__)
        return
    V.same('to_networkx:nodes', _call(lambda: sorted(X.nodes())), list(range(1, n + 1)))
    V.same('to_networkx:edges', _call(lambda: sorted(X.edges())), want)
    V.same('to_networkx:number_of_edges', ('ok', X.number_of_edges()), m)
    back = _call(cls.from_networkx, X)
    OBS['networkx_roundtrips'] += 1
    if back[0] == 'exc':
        V.bad('from_networkx', 'exception:' + back[1],
              'DirectedGraph.from_networkx(G.to_networkx()) raised %s(%s)' % (back[1], back[2]))
        return
    if not isinstance(back[1], cls):
        V.bad('from_networkx', 'type', 'from_networkx gives a %s' % type(back[1]).__name__)
        return
    W = Views(V.cname, V.prefix + 'roundtrip:')
    check_directed(back[1], n, E, W, roundtrip=False)
    V.problems.extend(W.problems)


def check_bipartite(G, dims, E, V, kind, roundtrip=True):
    import networkx
    L, Rr = dims
    m = len(E)
    want = sorted(E)
    V.same('number_of_vertices', _call(G.number_of_vertices), L + Rr)
    V.same('order', _call(G.order), L + Rr)
    V.same('left_order', _call(G.left_order), L)
    V.same('right_order', _call(G.right_order), Rr)
    V.same('parts', _call(lambda: tuple(list(p) for p in G.parts())),
           (list(range(1, L + 1)), list(range(1, Rr + 1))))
    V.same('number_of_edges', _call(G.number_of_edges), m)
    V.same('edges.__len__', _call(lambda: len(G.edges())), m)
    first = _call(lambda: list(G.edges()))
    V.listing('edges', first, want)
    V.same('edges:second-iteration', _call(lambda: list(G.edges())), first[1] if first[0] == 'ok' else None)
    view = _call(G.edges)
    hi = max(L, Rr) + 2
    for u in range(-1, hi):
        for v in range(-1, hi):
            w = (u, v) in E
            if not V.same('has_edge', _call(lambda: bool(G.has_edge(u, v))), w, '(%d,%d)' % (u, v)):
                break
            if view[0] == 'ok' and not V.same('edges.__contains__',
                                               _call(lambda: bool((u, v) in view[1])), w,
                                               ' (%d,%d)' % (u, v)):
                break
    for u in range(1, L + 1):
        nb = sorted(b for (a, b) in E if a == u)
        V.same('right_neighbors', _call(lambda: list(G.right_neighbors(u))), nb, '(%d)' % u)
        V.same('right_degree', _call(G.right_degree, u), len(nb), '(%d)' % u)
    for v in range(1, Rr + 1):
        nb = sorted(a for (a, b) in E if b == v)
        V.same('left_neighbors', _call(lambda: list(G.left_neighbors(v))), nb, '(%d)' % v)
        V.same('left_degree', _call(G.left_degree, v), len(nb), '(%d)' % v)
    if kind == 'bipartite':
        for u in (-1, 0, L + 1):
            V.non_vertex('right_neighbors', _call(lambda: list(G.right_neighbors(u))), u)
            V.non_vertex('right_degree', _call(G.right_degree, u), u)
        for v in (-1, 0, Rr + 1):
            V.non_vertex('left_neighbors', _call(lambda: list(G.left_neighbors(v))), v)
            V.non_vertex('left_degree', _call(G.left_degree, v), v)
    if not roundtrip:
        return
    X = _call(G.to_networkx)
    if X[0] == 'exc':
        V.bad('to_networkx', 'exception:' + X[1], 'to_networkx raised %s(%s)' % (X[1], X[2]))
        return
    X = X[1]
    if not isinstance(X, networkx.Graph) or X.is_directed() or X.is_multigraph():
        V.bad('to_networkx', 'type', 'to_networkx gives a %s' % type(X).__name__)
        return
    V.same('to_networkx:number_of_nodes', ('ok', X.number_of_nodes()), L + Rr)
    try:
        left = sorted(x for x in X.nodes() if X.nodes[x].get('bipartite') in (0, '0'))
        right = sorted(x for x in X.nodes() if X.nodes[x].get('bipartite') in (1, '1'))
    except TypeError:
        V.bad('to_networkx:nodes', 'unsortable', 'to_networkx has nodes %r' % (list(X.nodes()),))
        return
    V.same('to_networkx:sides', ('ok', (len(left), len(right))), (L, Rr))
    if len(left) == L and len(right) == Rr and X.number_of_nodes() == L + Rr:
        li = {x: i for i, x in enumerate(left, start=1)}
        ri = {x: i for i, x in enumerate(right, start=1)}
        es = []
        crossing = True
        for (a, b) in X.edges():
            if a in li and b in ri:
                es.append((li[a], ri[b]))
            elif b in li and a in ri:
                es.append((li[b], ri[a]))
            else:
                crossing = False
        if not crossing:
            V.bad('to_networkx:edges', 'inside-a-part', 'to_networkx has an edge inside one side')
        else:
            V.same('to_networkx:edges', ('ok', sorted(es)), want)
        V.same('to_networkx:number_of_edges', ('ok', X.number_of_edges()), m)
    targets = [cls_of('bipartite')]
    for cls in targets:
        back = _call(cls.from_networkx, X)
        OBS['networkx_roundtrips'] += 1
        if back[0] == 'exc':
            V.bad('from_networkx', 'exception:' + back[1],
                  'BipartiteGraph.from_networkx(G.to_networkx()) raised %s(%s)' % (back[1], back[2]))
            continue
        if not isinstance(back[1], cls):
            V.bad('from_networkx', 'type', 'from_networkx gives a %s' % type(back[1]).__name__)
            continue
        W = Views(V.cname, V.prefix + 'roundtrip:')
        check_bipartite(back[1], dims, E, W, 'bipartite', roundtrip=False)
        V.problems.extend(W.problems)


def vandalize(st):
    """What a caller may do with the lists the accessors hand out."""
    G = st.G
    got = []
    try:
        if st.kind == 'simple':
            got = [G.neighbors(u) for u in range(1, st.dims[0] + 1)]
        elif st.kind == 'directed':
            got = [G.successors(u) for u in range(1, st.dims[0] + 1)] + \
                  [G.predecessors(u) for u in range(1, st.dims[0] + 1)]
        else:
            got = [G.right_neighbors(u) for u in range(1, st.dims[0] + 1)] + \
                  [G.left_neighbors(v) for v in range(1, st.dims[1] + 1)]
    except Exception:
        return
    for x in got:
        if isinstance(x, list):
            x.append(-7)
            x.reverse()
            OBS['returned_lists_edited_by_the_caller'] += 1


def invariant(st):
    V = Views(CLSNAME[st.kind])
    V.vandal = True
    if st.kind == 'simple':
        check_simple(st.G, st.dims[0], st.E, V)
    elif st.kind == 'directed':
        check_directed(st.G, st.dims[0], st.E, V)
    else:
        check_bipartite(st.G, st.dims, st.E, V, st.kind)
    if not V.problems:
        # second reading, after the caller edited every list it was given
        vandalize(st)
        W = Views(CLSNAME[st.kind], prefix='after-the-caller-edited-returned-lists:')
        if st.kind == 'simple':
            check_simple(st.G, st.dims[0], st.E, W, roundtrip=False)
        elif st.kind == 'directed':
            check_directed(st.G, st.dims[0], st.E, W, roundtrip=False)
        else:
            check_bipartite(st.G, st.dims, st.E, W, st.kind, roundtrip=False)
        V.problems.extend(W.problems)
    # informative only: does the object equal the one built from scratch?
    try:
        F = from_scratch(st)
        a, b = dict(vars(F)), dict(vars(st.G))
        a.pop('name', None)
        b.pop('name', None)
        OBS['representation_equals_from_scratch' if bfs.canon(a) == bfs.canon(b)
            else 'representation_differs_from_scratch'] += 1
    except Exception:
        OBS['from_scratch_build_failed'] += 1
    return V.problems


def from_scratch(st):
    cls = cls_of(st.kind)
    F = cls(*st.dims)
    if st.kind != 'cbg':
        for (u, v) in sorted(st.E):
            F.add_edge(u, v)
    return F


# =================================================================== shards ==
def _bits_graph(pairs, bits):
    return [list(p) for i, p in enumerate(pairs) if (bits >> i) & 1]


def runs(tier, seed):
    """(label, kind, init, cap, afe) of every BFS run."""
    thorough = tier == 'thorough'
    out = []
    # ---- simple graphs: every initial size, growth up to the cap
    for n in range(0, 5):
        out.append(('simple:ctor%d:cap4' % n, 'simple', ['ctor', n], 4, 'full'))
    # all 2^10 graphs on 5 vertices, add/remove alphabet, partitioned in 4
    # searches by the presence of 2 pairs (growth up to 5: thorough tier)
    fz = [[1, 2], [4, 5]]
    for bits in range(4):
        out.append(('simple:5-vertices:part%d/4' % bits, 'simple',
                    ['ctor_part', 5, fz, _bits_graph(fz, bits)], 5, 'none'))
    if thorough:
        for n in range(0, 6):
            for i in range(3):   # two-edge lists dealt out to 3 runs of the same search
                out.append(('simple:ctor%d:cap5:lists%d/3' % (n, i), 'simple', ['ctor', n], 5,
                            'slice:%d:3' % i))
    out.append(('simple:null', 'simple', ['null_graph'], 3, 'full'))
    out.append(('simple:empty2', 'simple', ['empty_graph', 2], 4, 'few'))
    out.append(('simple:named1', 'simple', ['ctor_named', 1, 'g'], 4, 'few'))
    for n in (2, 3, 4):
        out.append(('simple:complete%d' % n, 'simple', ['complete_graph', n], 4, 'few'))
    out.append(('simple:star2', 'simple', ['star_graph', 2], 4, 'few'))
    out.append(('simple:star3', 'simple', ['star_graph', 3], 4, 'few'))
    out.append(('simple:nx-path3', 'simple', ['from_networkx', 3, [[2, 1], [3, 2]]], 4, 'few'))
    out.append(('simple:nx-empty0', 'simple', ['from_networkx', 0, []], 3, 'few'))
    if thorough:
        out.append(('simple:complete5', 'simple', ['complete_graph', 5], 5, 'few'))
        out.append(('simple:star4', 'simple', ['star_graph', 4], 5, 'few'))
        # all 2^15 graphs on 6 vertices (no growth at the cap), add/remove
        # alphabet, partitioned in 16 searches by the presence of 4 pairs
        fz = [[1, 2], [3, 4], [5, 6], [2, 5]]
        for bits in range(16):
            out.append(('simple:6-vertices:part%02d/16' % bits, 'simple',
                        ['ctor_part', 6, fz, _bits_graph(fz, bits)], 6, 'none'))
    # ---- directed graphs: no growth, every size
    for n in range(0, 3):
        out.append(('directed:ctor%d' % n, 'directed', ['ctor', n], n, 'full'))
    if thorough:          # all two-edge lists, dealt out to 8 runs of the same search
        for i in range(8):
            out.append(('directed:ctor3:lists%d/8' % i, 'directed', ['ctor', 3], 3, 'slice:%d:8' % i))
    else:
        out.append(('directed:ctor3', 'directed', ['ctor', 3], 3, 'few'))
    out.append(('directed:path2', 'directed', ['dag_path', 2], 3, 'few'))
    out.append(('directed:path1', 'directed', ['dag_path', 1], 2, 'full'))
    out.append(('directed:nx-cycle3', 'directed', ['from_networkx', 3, [[1, 2], [2, 3], [3, 1]]], 3, 'few'))
    out.append(('directed:nx-loop2', 'directed', ['from_networkx', 2, [[2, 2]]], 2, 'full'))
    if thorough:
        # all 2^16 directed graphs (with loops) on 4 vertices, add_edge
        # alphabet, partitioned in 16 searches by the presence of 4 pairs
        fz = [[1, 2], [2, 1], [3, 3], [4, 3]]
        for bits in range(16):
            out.append(('directed:4-vertices:part%02d/16' % bits, 'directed',
                        ['ctor_part', 4, fz, _bits_graph(fz, bits)], 4, 'none'))
    # ---- bipartite graphs
    sizes = [(L, Rr) for L in range(0, 3) for Rr in range(0, 4)]
    sizes += [(3, 0), (3, 1), (3, 2), (3, 3)]
    if thorough:
        sizes += [(2, 4), (4, 2), (3, 4), (4, 3)]
    for (L, Rr) in sizes:
        afe = 'full' if L * Rr <= 6 else 'few'
        out.append(('bipartite:ctor%dx%d' % (L, Rr), 'bipartite', ['ctor', L, Rr], L + Rr, afe))
    out.append(('bipartite:nx2x2', 'bipartite', ['from_networkx', 2, 2, [[2, 1], [1, 2]]], 4, 'full'))
    out.append(('bipartite:nx1x3', 'bipartite', ['from_networkx', 1, 3, [[1, 3]]], 4, 'full'))
    for (L, Rr) in [(0, 0), (0, 2), (2, 0), (1, 1), (2, 3)] + ([(3, 3)] if thorough else []):
        out.append(('cbg:%dx%d' % (L, Rr), 'cbg', ['ctor', L, Rr], L + Rr, 'full'))
    # ---- VERIF_SEED rotates one extra start state per family (never the core)
    pairs4 = [(u, v) for u in range(1, 5) for v in range(u + 1, 5)]
    bits = (seed * 2654435761 + 12345) % (1 << len(pairs4))
    out.append(('extra:simple:seed', 'simple', ['from_networkx', 4, _bits_graph(pairs4, bits)], 4, 'few'))
    dp = [(u, v) for u in range(1, 4) for v in range(1, 4)]
    bits = (seed * 40503 + 77) % (1 << len(dp))
    out.append(('extra:directed:seed', 'directed', ['from_networkx', 3, _bits_graph(dp, bits)], 3, 'few'))
    # the pool takes jobs in this order: longest first
    heavy = ('cap5', '6-vertices', '4-vertices', '5-vertices', 'directed:ctor3', 'bipartite:ctor3x4',
             'bipartite:ctor4x3')
    out.sort(key=lambda r: 0 if any(h in r[0] for h in heavy) else 1)
    return out


# ------------------------------------------------------------- large graphs --
# One long scripted history per graph type on 300 vertices (beyond CPython's
# small-integer cache, two- and three-digit vertices).  Every argument is a
# FRESH int object (int(str(x))), as it is when vertices come from a file or
# from arithmetic.  Same oracle as the BFS: legal insertions succeed, illegal
# ones raise ValueError without side effect, all views agree with the model.
def _fresh(x):
    return int(str(x))


def large_history(kind):
    n = 300
    ops = []
    hot = [1, 2, 9, 10, 11, 99, 100, 255, 256, 257, 258, 299, 300]
    for a in hot:                       # self loops / equal endpoints
        ops.append(('add', a, a))
    for a in hot:
        for b in hot:
            if (a * 7 + b * 3) % 5 < 2:
                ops.append(('add', a, b))
    for i in range(1, 300, 7):          # a long path with steps of 1 and 257
        ops.append(('add', i, i + 1))
        ops.append(('add', i, (i + 256) % 300 + 1))
    for a in (0, -1, 301, 302):         # out of range
        ops.append(('add', a, 5))
        ops.append(('add', 5, a))
    for a in hot:                       # duplicates in both orientations
        for b in hot[:4]:
            ops.append(('add', b, a))
    if kind == 'simple':
        for a in hot[::2]:
            for b in hot[1::2]:
                ops.append(('remove', a, b))
        ops.append(('grow', 303, 0))
        ops.append(('add', 301, 302))
        ops.append(('add', 303, 257))
        ops.append(('add', 302, 302))
        ops.append(('remove', 303, 257))
    return n, ops


def check_large(case):
    from cnfgen.graphs import Graph, DirectedGraph, BipartiteGraph
    kind = case['kind']
    n, ops = large_history(kind)
    if kind == 'simple':
        G = Graph(_fresh(n))
    elif kind == 'directed':
        G = DirectedGraph(_fresh(n))
    else:
        G = BipartiteGraph(_fresh(n), _fresh(n))
    E = set()
    dims = [n, n]
    V = Views(CLSNAME[kind], prefix='large:')

    def legal(u, v):
        if kind == 'simple':
            return 1 <= u <= dims[0] and 1 <= v <= dims[0] and u != v
        if kind == 'directed':
            return 1 <= u <= dims[0] and 1 <= v <= dims[0]
        return 1 <= u <= dims[0] and 1 <= v <= dims[1]

    def norm_edge(u, v):
        return (min(u, v), max(u, v)) if kind == 'simple' else (u, v)
    for step, (op, a, b) in enumerate(ops):
        if op == 'add':
            before = _call(G.number_of_edges)
            got = _call(G.add_edge, _fresh(a), _fresh(b))
            if legal(a, b):
                if got[0] == 'exc':
                    V.bad('add_edge', 'legal:refused', 'add_edge(%d,%d) raised %s at step %d' % (a, b, got[1], step))
                else:
                    E.add(norm_edge(a, b))
            else:
                if got[0] != 'exc':
                    V.bad('add_edge', 'illegal:accepted', 'add_edge(%d,%d) accepted at step %d' % (a, b, step))
                elif got[1] != 'ValueError':
                    V.bad('add_edge', 'illegal:exception:' + got[1], 'add_edge(%d,%d) raised %s' % (a, b, got[1]))
                elif _call(G.number_of_edges) != before:
                    V.bad('add_edge', 'refused-with-side-effect', 'edge count changed by refused add_edge(%d,%d)' % (a, b))
        elif op == 'remove':
            got = _call(G.remove_edge, _fresh(a), _fresh(b))
            if got[0] == 'exc' and got[1] != 'ValueError':
                V.bad('remove_edge', 'exception:' + got[1], 'remove_edge(%d,%d) raised %s' % (a, b, got[1]))
            elif got[0] != 'exc':
                E.discard(norm_edge(a, b))
        elif op == 'grow':
            got = _call(G.update_vertex_number, _fresh(a))
            if got[0] == 'exc':
                V.bad('update_vertex_number', 'exception:' + got[1], 'update_vertex_number(%d) raised' % a)
            else:
                dims[0] = max(dims[0], a)
        if V.problems:
            break
    if not V.problems:
        if kind == 'simple':
            check_simple(G, dims[0], E, V)
        elif kind == 'directed':
            check_directed(G, dims[0], E, V)
        else:
            check_bipartite(G, (dims[0], dims[1]), E, V, kind)
    return [{'key': k, 'what': w[:400], 'case': dict(case)} for (k, w) in V.problems[:6]], len(ops)


# ------------------------------------------------------------ long batches --
def long_batches(kind):
    """(name, n, batch, position of the refused pair or None): add_edges_from
    with 30..70 pairs, neighbours of a common vertex listed in decreasing and
    in mixed order, repeated pairs, and one pair that must be refused at the
    start, in the middle or at the end."""
    n = 24
    hubs = (3, 17)
    desc = [(h, v) for h in hubs for v in range(n, 0, -1) if v != h]            # 46 pairs
    mixed = [(v if i % 2 else h, h if i % 2 else v)
             for i, (h, v) in enumerate((h, (7 * j) % n + 1) for h in hubs for j in range(n))
             if v != h]
    if kind == 'bipartite':
        desc = [(h, v) for h in hubs for v in range(n, 0, -1)]
        mixed = [(h, (7 * j) % n + 1) for h in hubs for j in range(n)]
    illegal = (n + 1, 2) if kind != 'simple' else (5, 5)
    out = []
    for nm, b in (('descending', desc), ('mixed', mixed), ('repeated', desc[:20] + desc[10:36])):
        out.append((nm, n, b, None))
        for pos in (0, 33, len(b)):
            out.append(('%s+refused@%d' % (nm, pos), n, b[:pos] + [illegal] + b[pos:], pos))
    out.append(('short+refused@5', n, desc[:5] + [illegal] + desc[5:9], 5))
    return out


def check_long_batch(case):
    from cnfgen.graphs import Graph, DirectedGraph, BipartiteGraph
    kind, form = case['kind'], case['form']
    out = []
    for (nm, n, batch, pos) in long_batches(kind):
        if case.get('only') and nm != case['only']:
            continue
        if kind == 'simple':
            G = Graph(_fresh(n))
        elif kind == 'directed':
            G = DirectedGraph(_fresh(n))
        else:
            G = BipartiteGraph(_fresh(n), _fresh(n))
        V = Views(CLSNAME[kind], prefix='batch:')
        G.add_edge(1, 2)
        E = {(1, 2)}
        norm_edge = (lambda u, v: (min(u, v), max(u, v))) if kind == 'simple' else (lambda u, v: (u, v))
        pairs = [(_fresh(u), _fresh(v)) for (u, v) in batch]
        got = _call(G.add_edges_from, pairs if form == 'list' else (p_ for p_ in pairs))
        # add_edges_from is the sequence of add_edge calls it is written as:
        # the pairs before a refused one are in, the others are not
        upto = len(batch) if pos is None else pos
        for (u, v) in batch[:upto]:
            E.add(norm_edge(u, v))
        if pos is None and got[0] == 'exc':
            V.bad('add_edges_from', 'legal:refused', '%s batch of %d legal pairs raised %s' % (nm, len(batch), got[1]))
        elif pos is not None and got[0] != 'exc':
            V.bad('add_edges_from', 'illegal-later:accepted', '%s batch accepted the pair %r' % (nm, batch[pos]))
        elif pos is not None and got[1] != 'ValueError':
            V.bad('add_edges_from', 'illegal-later:exception:' + got[1], '%s batch raised %s' % (nm, got[1]))
        if not V.problems:
            # the caller goes on with the object
            for (u, v) in ((2, 3), (17, 1) if kind != 'simple' else (1, 17)):
                if _call(G.add_edge, _fresh(u), _fresh(v))[0] != 'exc':
                    E.add(norm_edge(u, v))
            if kind == 'simple':
                if _call(G.remove_edge, 3, 24)[0] != 'exc':
                    E.discard((3, 24))
                check_simple(G, n, E, V)
            elif kind == 'directed':
                check_directed(G, n, E, V)
            else:
                check_bipartite(G, (n, n), E, V, kind)
        for (k, w) in V.problems[:3]:
            c = dict(case)
            c['only'] = nm
            out.append({'key': k, 'what': ('[%s batch] ' % nm) + w[:400], 'case': c})
    return out


def check_dense(case):
    """Every possible edge of a graph whose order is a power of two or next
    to one (4, 8, 15, 16, 17, 32): all pairs inserted in a scrambled order,
    then every other one removed (simple graphs), full view oracle.  Whatever
    the object uses as key of an edge must keep all n^2 pairs apart."""
    from cnfgen.graphs import Graph, DirectedGraph, BipartiteGraph
    kind, n = case['kind'], case['n']
    if kind == 'simple':
        G = Graph(_fresh(n))
        pairs = [(u, v) for u in range(1, n + 1) for v in range(u + 1, n + 1)]
    elif kind == 'directed':
        G = DirectedGraph(_fresh(n))
        pairs = [(u, v) for u in range(1, n + 1) for v in range(1, n + 1)]
    else:
        G = BipartiteGraph(_fresh(n), _fresh(n + 1))
        pairs = [(u, v) for u in range(1, n + 1) for v in range(1, n + 2)]
    order = sorted(pairs, key=lambda e: ((e[0] * 7 + e[1] * 13) % 11, -e[1], e[0]))
    V = Views(CLSNAME[kind], prefix='dense:')
    E = set()
    for (u, v) in order:
        got = _call(G.add_edge, _fresh(u), _fresh(v))
        if got[0] == 'exc':
            V.bad('add_edge', 'legal:refused', 'add_edge(%d,%d) raised %s' % (u, v, got[1]))
            break
        E.add((u, v))
        if _call(G.number_of_edges) != ('ok', len(E)):
            V.bad('number_of_edges', 'mismatch', 'after inserting %d distinct pairs (the last one (%d,%d)) the '
                  'graph counts %r edges' % (len(E), u, v, _call(G.number_of_edges)))
            break
    if not V.problems and kind == 'simple':
        for (u, v) in order[::2]:
            if _call(G.remove_edge, v, u)[0] != 'exc':
                E.discard((u, v))
    if not V.problems:
        if kind == 'simple':
            check_simple(G, n, E, V, roundtrip=False)
        elif kind == 'directed':
            check_directed(G, n, E, V, roundtrip=False)
        else:
            check_bipartite(G, (n, n + 1), E, V, kind, roundtrip=False)
    return [{'key': k, 'what': w[:400], 'case': dict(case)} for (k, w) in V.problems[:4]], len(order)


def check_overlapping_walks(case):
    """Two walks over ONE object returned by edges() that overlap in time
    (nested loops, zip(E, E), an abandoned walk followed by a full one): each
    walk lists every edge."""
    from cnfgen.graphs import Graph, DirectedGraph, BipartiteGraph
    kind, n, edges = case['kind'], case['n'], [tuple(e) for e in case['edges']]
    if kind == 'simple':
        G = Graph(n)
    elif kind == 'directed':
        G = DirectedGraph(n)
    else:
        G = BipartiteGraph(n, n)
    for (u, v) in edges:
        G.add_edge(u, v)
    out = []

    def bad(sym, what):
        out.append({'key': '%s.edges:overlapping-walks:%s' % (CLSNAME[kind], sym), 'what': what, 'case': dict(case)})
    try:
        want = list(G.edges())
        E = G.edges()
        outer = []
        inner_lens = []
        for e in E:
            outer.append(e)
            inner_lens.append(len([f for f in E]))
        if outer != want or any(k != len(want) for k in inner_lens):
            bad('nested', 'nested loops over one edges() object: outer walk %r, inner walks of %r edges, '
                          'the graph has %r' % (outer, inner_lens, want))
        E = G.edges()
        z = list(zip(E, E))
        if z != [(e, e) for e in want]:
            bad('zip', 'zip(E, E) = %r for edges %r' % (z, want))
        E = G.edges()
        it = iter(E)
        if want:
            next(it)
        full = list(E)
        rest = list(it)
        if full != want or rest != want[1:]:
            bad('abandoned', 'after one step of an earlier walk, list(E) = %r and the earlier walk continues '
                             'with %r; edges %r' % (full, rest, want))
    except Exception as e:
        bad('exception:' + type(e).__name__, repr(e))
    return out


# ---------------------------------------------- from_networkx, any node order --
def nx_bipartite(L, Rr, edges, order, orient, sides='int'):
    """sides: how the side of a node is written -- ints 0/1, the strings '0'/'1'
    (what a dot file delivers), booleans"""
    import networkx
    enc = {'int': (0, 1), 'str': ('0', '1'), 'bool': (False, True)}[sides]
    G = networkx.Graph()
    lefts = [('l', i) for i in range(1, L + 1)]
    rights = [('r', j) for j in range(1, Rr + 1)]
    if order == 'right-first':
        seq = rights + lefts
    elif order == 'interleaved':
        seq = []
        for t in range(max(L, Rr)):
            if t < Rr:
                seq.append(rights[t])
            if t < L:
                seq.append(lefts[t])
    else:
        seq = lefts + rights
    for side, i in seq:
        G.add_node('%s%02d' % (side, i), bipartite=enc[0] if side == 'l' else enc[1])
    for k, (u, v) in enumerate(edges):
        a, b = 'l%02d' % u, 'r%02d' % v
        if orient == 'rl' or (orient == 'mixed' and k % 2):
            a, b = b, a
        G.add_edge(a, b)
    return G


def check_from_networkx(case):
    """BipartiteGraph.from_networkx numbers each side in order of appearance;
    whatever the relative order of the two sides and the orientation in which
    an edge is stored, vertices and edges must be preserved."""
    from cnfgen.graphs import BipartiteGraph
    L, Rr, edges = case['L'], case['R'], [tuple(e) for e in case['edges']]
    out = []
    for order in ('left-first', 'right-first', 'interleaved'):
        for orient in ('lr', 'rl', 'mixed'):
            sides = {'lr': 'int', 'rl': 'str', 'mixed': 'bool'}[orient] if order != 'left-first' else \
                {'lr': 'str', 'rl': 'bool', 'mixed': 'int'}[orient]
            try:
                B = BipartiteGraph.from_networkx(nx_bipartite(L, Rr, edges, order, orient, sides))
                got = (B.left_order(), B.right_order(), sorted(map(tuple, B.edges())))
            except Exception as e:
                out.append({'key': 'BipartiteGraph.from_networkx:%s:exception:%s' % (order, type(e).__name__),
                            'what': '%r for a %dx%d graph with edges %r (%s, %s)' % (e, L, Rr, edges, order, orient),
                            'case': dict(case)})
                continue
            if got != (L, Rr, sorted(edges)):
                out.append({'key': 'BipartiteGraph.from_networkx:%s:edges-differ' % order,
                            'what': 'got %r, the networkx graph (%s, edges stored %s) has %r' %
                            (got, order, orient, (L, Rr, sorted(edges))), 'case': dict(case)})
    return out


NX_LABELS = {
    'one-based': lambda i: i, 'zero-based': lambda i: i - 1, 'gaps': lambda i: 10 * i + 3,
    'digit-strings': lambda i: str(i + 4), 'names': lambda i: 'v' + 'abcdefgh'[i - 1],
}


def check_from_networkx_plain(case):
    """Graph / DirectedGraph.from_networkx for every labelling scheme: the
    result has the vertices and edges of the source (integer-like labels in
    numeric order), and the SOURCE is the same networkx graph afterwards --
    same nodes, same attributes, same edges."""
    import copy
    import networkx
    from cnfgen.graphs import Graph, DirectedGraph
    n, edges, directed = case['n'], [tuple(e) for e in case['edges']], case['directed']
    out = []
    for scheme, lab in sorted(NX_LABELS.items()):
        for order in ('ascending', 'descending'):
            X = networkx.DiGraph() if directed else networkx.Graph()
            X.graph['name'] = 'source graph'
            for i in (range(1, n + 1) if order == 'ascending' else range(n, 0, -1)):
                X.add_node(lab(i), colour='c%d' % i)
            for (u, v) in edges:
                X.add_edge(lab(u), lab(v), weight=u + v)
            before = (copy.deepcopy(list(X.nodes(data=True))), copy.deepcopy(list(X.edges(data=True))),
                      dict(X.graph))
            cls = DirectedGraph if directed else Graph
            try:
                G = cls.from_networkx(X)
                got = (G.number_of_vertices(), sorted(tuple(e) for e in G.edges()))
            except Exception as e:
                out.append({'key': '%s.from_networkx:%s:exception:%s' % (cls.__name__, scheme, type(e).__name__),
                            'what': '%r for %d vertices, edges %r' % (e, n, edges), 'case': dict(case)})
                continue
            after = (list(X.nodes(data=True)), list(X.edges(data=True)), dict(X.graph))
            if after != before:
                out.append({'key': '%s.from_networkx:%s:source-graph-changed' % (cls.__name__, scheme),
                            'what': 'the networkx graph given to from_networkx had nodes %r, edges %r; '
                                    'afterwards nodes %r, edges %r' % (before[0][:4], before[1][:4],
                                                                       after[0][:4], after[1][:4]),
                            'case': dict(case)})
            if scheme != 'names':
                want = (n, sorted((min(u, v), max(u, v)) if not directed else (u, v) for (u, v) in edges))
                if got != want:
                    out.append({'key': '%s.from_networkx:%s:edges-differ' % (cls.__name__, scheme),
                                'what': 'got %r, the networkx graph (%s labels, inserted %s) has %r' %
                                        (got, scheme, order, want), 'case': dict(case)})
            elif got[0] != n or len(got[1]) != len(set(edges)):
                out.append({'key': '%s.from_networkx:%s:size-differs' % (cls.__name__, scheme),
                            'what': 'got %r for %d vertices and %d edges' % (got, n, len(set(edges))),
                            'case': dict(case)})
    return out


def check_from_networkx_multi(case):
    """networkx objects that ARE networkx.Graph instances without being plain
    simple graphs (multigraphs with parallel edges, directed graphs): the
    conversion either refuses (ValueError / TypeError) or delivers a graph
    whose views agree with its own edge listing, which for a multigraph is
    the set of its edges."""
    import networkx
    from cnfgen.graphs import Graph
    n, edges = case['n'], [tuple(e) for e in case['edges']]
    out = []
    variants = []
    M = networkx.MultiGraph()
    M.add_nodes_from(range(1, n + 1))
    for (u, v) in edges:
        M.add_edge(u, v)
        M.add_edge(v, u)              # a parallel edge
    variants.append(('multigraph', M, sorted(set(edges))))
    # a directed graph (what a 'directed 1' gml or a 'digraph' dot file delivers):
    # arcs low->high, high->low and in both directions; if the conversion
    # accepts it, the simple graph has exactly the pairs joined by some arc
    D = networkx.DiGraph()
    D.add_nodes_from(range(1, n + 1))
    for k, (u, v) in enumerate(edges):
        lo, hi = min(u, v), max(u, v)
        if k % 3 == 0:
            D.add_edge(hi, lo)
        elif k % 3 == 1:
            D.add_edge(lo, hi)
        else:
            D.add_edge(lo, hi)
            D.add_edge(hi, lo)
    variants.append(('digraph', D, sorted(set((min(e), max(e)) for e in edges))))
    for name, X, want in variants:
        try:
            G = Graph.from_networkx(X)
        except (ValueError, TypeError):
            continue
        except Exception as e:
            out.append({'key': 'Graph.from_networkx:%s:exception:%s' % (name, type(e).__name__),
                        'what': repr(e), 'case': dict(case)})
            continue
        try:
            listing = sorted((min(a, b), max(a, b)) for (a, b) in G.edges())
        except Exception as e:
            out.append({'key': 'Graph.from_networkx:%s:edges:exception:%s' % (name, type(e).__name__),
                        'what': repr(e), 'case': dict(case)})
            continue
        if want is not None and listing != want:
            out.append({'key': 'Graph.from_networkx:%s:edges-differ' % name,
                        'what': 'edges %r, the %s joins the pairs %r' % (listing, name, want), 'case': dict(case)})
            continue
        V = Views('Graph', prefix='from_networkx(%s):' % name)
        check_simple(G, n, set(listing), V, roundtrip=False)
        for sym, what in V.problems[:3]:
            out.append({'key': sym, 'what': what + ' [Graph.from_networkx of a %s with edges %r]' % (name, edges),
                        'case': dict(case)})
    return out


def held_view_histories(kind, depth):
    """Every history of <= depth operations from small start graphs, as
    (start, [ops]); the alphabet depends on the current size."""
    starts = [0, 1, 2] if kind == 'simple' else ([(2,), (3,)] if kind == 'directed' else [(1, 2), (2, 2)])
    out = []

    def moves(n, E):
        if kind == 'simple':
            ms = [('grow', 1), ('grow', 2)] if n <= 3 else []
            ms += [('add', u, v) for u in range(1, n + 1) for v in range(u + 1, n + 1) if (u, v) not in E]
            ms += [('remove', u, v) for (u, v) in sorted(E)]
            return ms
        if kind == 'directed':
            return [('add', u, v) for u in range(1, n[0] + 1) for v in range(1, n[0] + 1) if (u, v) not in E]
        return [('add', u, v) for u in range(1, n[0] + 1) for v in range(1, n[1] + 1) if (u, v) not in E]

    def rec(start, n, E, hist):
        out.append((start, list(hist)))
        if len(hist) >= depth:
            return
        for m in moves(n, E):
            if m[0] == 'grow':
                rec(start, n + m[1], E, hist + [m])
            elif m[0] == 'add':
                rec(start, n, E | {(m[1], m[2])}, hist + [m])
            else:
                rec(start, n, E - {(m[1], m[2])}, hist + [m])
    for st in starts:
        rec(st, st, frozenset(), [])
    return out


def check_held_view(case):
    """A view obtained from edges() at some moment and kept: after every later
    operation its listing, its length and its membership test must agree with
    each other and with the edges inserted so far."""
    from cnfgen import graphs
    kind, start, hist, at = case['kind'], case['start'], [tuple(m) for m in case['history']], case['at']
    if kind == 'simple':
        G = graphs.Graph(start)
    elif kind == 'directed':
        G = graphs.DirectedGraph(*start)
    else:
        G = graphs.BipartiteGraph(*start)
    E = set()
    held = None
    out = []
    for i in range(len(hist) + 1):
        if i == at:
            held = G.edges()
        if held is not None:
            want = sorted(E)
            try:
                got = [tuple(e) for e in held]
                ln = len(held)
                mem = all(e in held for e in want)
            except Exception as e:
                out.append({'key': '%s.edges:held-view:exception:%s' % (CLSNAME[kind], type(e).__name__),
                            'what': repr(e), 'case': case})
                break
            if got != want or ln != len(want) or not mem:
                out.append({'key': '%s.edges:held-view:mismatch' % CLSNAME[kind],
                            'what': 'view taken after %d operation(s), read after %d: listing %r, len %d, '
                                    'all inserted edges are members: %r; inserted edges are %r  [%s]' %
                                    (at, i, got, ln, mem, want, hist[:i]), 'case': case})
                break
        if i < len(hist):
            m = hist[i]
            if m[0] == 'grow':
                G.update_vertex_number(G.number_of_vertices() + m[1])
            elif m[0] == 'add':
                G.add_edge(m[1], m[2])
                E.add((m[1], m[2]))
            else:
                G.remove_edge(m[2], m[1])
                E.discard((m[1], m[2]))
    return out


def run_held(args, R):
    for (start, hist) in held_view_histories(args['kind'], args['depth'])[args['i']::args['k']]:
        for at in range(len(hist) + 1):
            case = {'part': 'held', 'kind': args['kind'], 'start': start, 'history': [list(m) for m in hist],
                    'at': at}
            R.extend(check_held_view(case))
            R.stats['held_view_checks'] += 1
            R.stats['executions'] += 1
            R.stats['transitions'] += len(hist)
            R.case(sample=case if R.evals % 5000 == 0 else None, nontrivial=len(hist) > at)


def run_extra(args, R):
    import engine.scope as scope_
    if args['what'] == 'large':
        vs, nops = check_large({'part': 'large', 'kind': args['kind']})
        R.stats['large_history_operations'] += nops
        R.stats['transitions'] += nops
        R.stats['states'] += 1
        R.stats['executions'] += nops
        R.case(sample={'part': 'large', 'kind': args['kind'], 'operations': nops}, nontrivial=True)
        R.extend(vs)
        return
    if args['what'] == 'batch':
        for n_ in (4, 8, 15, 16, 17, 32):
            case = {'part': 'dense', 'kind': args['kind'], 'n': n_}
            vs, nops = check_dense(case)
            R.extend(vs)
            R.stats['executions'] += nops
            R.stats['transitions'] += nops
            R.case(sample=case, nontrivial=True)
        for form in ('list', 'generator'):
            case = {'part': 'batch', 'kind': args['kind'], 'form': form}
            R.extend(check_long_batch(case))
            nb = len(long_batches(args['kind']))
            R.stats['long_batches'] += nb
            R.stats['executions'] += nb
            R.case(sample=case, nontrivial=True, n=nb)
        for n in range(0, 4):
            gen = {'simple': scope_.simple_graphs(n), 'directed': scope_.digraphs(n, loops=True),
                   'bipartite': scope_.bipartite_graphs(n, n) if n <= 2 else []}[args['kind']]
            for es in gen:
                case = {'part': 'walks', 'kind': args['kind'], 'n': n, 'edges': [list(e) for e in es]}
                R.extend(check_overlapping_walks(case))
                R.stats['executions'] += 3
                R.case(sample=case if R.evals % 50 == 0 else None, nontrivial=len(es) > 0)
        return
    for n in range(0, 4):
        for es in scope_.simple_graphs(n):
            case = {'part': 'nxplain', 'n': n, 'edges': [list(e) for e in es], 'directed': False}
            R.extend(check_from_networkx_plain(case))
            R.stats['from_networkx_orders'] += 10
            R.stats['executions'] += 10
            R.case(sample=case if R.evals % 40 == 0 else None, nontrivial=n > 0)
            case = {'part': 'nxmulti', 'n': n, 'edges': [list(e) for e in es]}
            R.extend(check_from_networkx_multi(case))
            R.stats['executions'] += 2
        for es in scope_.digraphs(n, loops=False):
            if n <= 2 or len(es) <= 3:
                case = {'part': 'nxplain', 'n': n, 'edges': [list(e) for e in es], 'directed': True}
                R.extend(check_from_networkx_plain(case))
                R.stats['from_networkx_orders'] += 10
                R.stats['executions'] += 10
                R.case(sample=None, nontrivial=n > 0)
    sizes = [(L, Rr) for L in range(0, 4) for Rr in range(0, 4)]
    for (L, Rr) in sizes:
        for es in scope_.bipartite_graphs(L, Rr):
            case = {'part': 'nx', 'L': L, 'R': Rr, 'edges': [list(e) for e in es]}
            R.extend(check_from_networkx(case))
            R.stats['from_networkx_orders'] += 9
            R.stats['executions'] += 9
            R.case(sample=case if R.evals % 300 == 0 else None, nontrivial=len(es) > 0)
    for (L, Rr, es) in [(2, 11, [(1, 10), (2, 11), (1, 2)]), (11, 2, [(10, 1), (11, 2), (2, 1)]),
                        (12, 12, [(1, 12), (12, 1), (10, 2), (2, 10), (11, 11)])]:
        case = {'part': 'nx', 'L': L, 'R': Rr, 'edges': [list(e) for e in es]}
        R.extend(check_from_networkx(case))
        R.case(sample=case, nontrivial=True)


def shards(tier, seed):
    out = [('%02d:%s' % (i, lab), 'run_bfs',
            {'kind': kind, 'init': init, 'cap': cap, 'afe': afe})
           for i, (lab, kind, init, cap, afe) in enumerate(runs(tier, seed))]
    for kind in ('simple', 'directed', 'bipartite'):
        out.append(('large:' + kind, 'run_extra', {'what': 'large', 'kind': kind}))
        out.append(('batch:' + kind, 'run_extra', {'what': 'batch', 'kind': kind}))
    out.append(('nx-orders', 'run_extra', {'what': 'nx'}))
    for kind, depth in (('simple', 4 if tier == 'thorough' else 3), ('directed', 3), ('bipartite', 3)):
        for i in range(4):
            out.append(('held:%s:%d' % (kind, i), 'run_held', {'kind': kind, 'depth': depth, 'i': i, 'k': 4}))
    return out


MAX_STATES = 200000


def _initial_or_violation(args):
    """The initial object is built by the real constructors too: a failure
    there is a finding, not a crash of the harness."""
    try:
        return build_initial(args['kind'], args['init'], args['cap'], args.get('afe', 'none')), None
    except Exception as e:      # noqa
        return None, {'key': '%s.initial:%s:exception:%s' % (CLSNAME[args['kind']], args['init'][0],
                                                           type(e).__name__),
                      'what': 'building the initial graph %r raised %s(%s)'
                      % (args['init'], type(e).__name__, e),
                      'case': {'kind': args['kind'], 'init': args['init'], 'cap': args['cap'],
                               'afe': args.get('afe', 'none'), 'history': []}}


def run_bfs(args, R):
    OBS.clear()
    st0, v = _initial_or_violation(args)
    if v is not None:
        R.case(nontrivial=False)
        R.bad(v['key'], v['what'], v['case'])
        return
    models = set()
    edges_seen = Counter()

    def on_state(st, depth):
        models.add((st.dims, tuple(sorted(st.E))))
        nontrivial = depth > 0 or len(st.E) > 0
        sample = None
        if R.evals % 401 == 0:
            sample = {'kind': st.kind, 'dims': list(st.dims), 'edges': sorted(st.E), 'depth': depth}
        R.case(sample=sample, nontrivial=nontrivial)
        edges_seen[len(st.E)] += 1

    rep = bfs.search([(args['init'], st0)], key, operations, apply, invariant,
                     max_states=MAX_STATES, on_state=on_state,
                     check_parent_untouched='each')
    R.stats['bfs_runs'] += 1
    R.stats['states'] += rep.states
    R.stats['transitions'] += rep.transitions
    R.stats['executions'] += rep.transitions
    R.stats['transitions_into_known_state'] += rep.merged
    R.stats['transitions_without_change'] += rep.self_loops
    R.stats['transitions_into_other_part_of_partitioned_space'] += rep.boundary
    R.stats['model_states'] += len(models)
    R.stats['states_beyond_model_states'] += rep.states - len(models)
    R.stats['states_changed_by_observation'] += rep.changed_by_observation
    if rep.fixpoint:
        R.stats['bfs_fixpoint_reached'] += 1
    else:
        R.stats['cap_hit'] += 1
    R.outcomes['bfs_run:%s:max_depth=%02d' % (args['kind'], rep.max_depth)] += 1
    for t, c in rep.tags.items():
        R.outcomes[t] += c
    for t, c in OBS.items():
        if t in ('networkx_roundtrips', 'digraph_states_acyclic', 'digraph_states_cyclic'):
            R.stats[t] += c
        else:
            R.outcomes[t] += c
    for v in rep.violations:
        if v['symptom'] == 'copy-not-independent':
            v['symptom'] = CLSNAME[args['kind']] + '.deepcopy:copy-not-independent'
        case = {'kind': args['kind'], 'init': args['init'], 'cap': args['cap'],
                'afe': args['afe'], 'history': v['history']}
        R.bad(v['symptom'], '%s  [after %d operation(s): %s]'
              % (v['what'], len(v['history']), _short(v['history'])), case)


def _short(history):
    s = ' ; '.join('%s%r' % (op[0], tuple(op[1:])) for op in history[-6:])
    return ('... ' if len(history) > 6 else '') + s


def replay(case):
    if case.get('part') == 'large':
        return check_large(case)[0]
    if case.get('part') == 'nx':
        return check_from_networkx(case)
    if case.get('part') == 'batch':
        return check_long_batch(case)
    if case.get('part') == 'dense':
        return check_dense(case)[0]
    if case.get('part') == 'walks':
        return check_overlapping_walks(case)
    if case.get('part') == 'held':
        return check_held_view(case)
    if case.get('part') == 'nxplain':
        return check_from_networkx_plain(case)
    if case.get('part') == 'nxmulti':
        return check_from_networkx_multi(case)
    OBS.clear()
    st0, v = _initial_or_violation(case)
    if v is not None:
        return [v]
    hist = case['history']
    out = []
    for symptom, what, step in bfs.replay(st0, hist, key, apply, invariant):
        if symptom == 'copy-not-independent':
            symptom = CLSNAME[case['kind']] + '.deepcopy:copy-not-independent'
        out.append({'key': symptom,
                    'what': '%s  [after %d operation(s): %s]' % (what, step, _short(hist[:step])),
                    'case': case})
    return out
