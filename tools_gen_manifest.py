#!/venv/bin/python
"""Regenerates MANIFEST.json from the check modules present under checks/."""
import os, sys, json, glob, importlib
HERE = os.path.dirname(os.path.abspath(__file__))
sys.path.insert(0, HERE)
from engine import common
common.setup_paths()

props = [json.loads(l) for l in open(os.path.join(HERE, 'properties.jsonl'))]
PENDING = set(open(os.path.join(HERE, 'pending.txt')).read().split()) \
    if os.path.exists(os.path.join(HERE, 'pending.txt')) else set()
checks = []
na = []
for p in props:
    pid = p['id']
    hits = glob.glob(os.path.join(HERE, 'checks', pid.lower() + '_*.py'))
    if pid in PENDING:
        hits = []
    if not hits:
        na.append({'property_id': pid,
                   'reason': 'check not built yet (work in progress, see DESIGN.md section 4)'})
        continue
    mod = importlib.import_module('checks.' + os.path.basename(hits[0])[:-3])
    checks.append({
        'property_id': pid,
        'quick_cmd': '/venv/bin/python run.py %s --tier quick' % pid,
        'thorough_cmd': '/venv/bin/python run.py %s --tier thorough' % pid,
        'evidence_file': '/verif/evidence/%s.json' % pid,
        'replay_cmd_template': '/venv/bin/python run.py %s --replay {path}' % pid,
        'engine': getattr(mod, 'ENGINE', 'engine'),
        'level_claimed': {'category': mod.LEVEL,
                          'text': mod.LEVEL_TEXT,
                          'design_ref': 'DESIGN.md section 4, ' + pid},
        'level_note': mod.LEVEL_NOTE,
        'technique': mod.TECHNIQUE,
    })
manifest = {
    'version': 1,
    'setup_cmd': '/venv/bin/python -m engine.selftest',
    'hooks': {
        'guard': 'CNFGEN_VERIF',
        'enable': 'no source hooks are needed: checks import /repo\'s working tree directly and observe it from outside (formula_class subclasses, module rebinding, random oracle); the variable CNFGEN_VERIF=1 is exported by the runner but nothing in /repo reads it',
        'baseline_off_cmd': 'cd /repo && /venv/bin/python -m pytest -ra -q -p no:cacheprovider --timeout=900 --continue-on-collection-errors',
        'source_commits': [],
        'add_only': True,
    },
    'engines': [
        {'name': 'tt', 'path': 'engine/tt.py', 'kind_free_text': 'bit-parallel exhaustive evaluation of all 2^n assignments + exhaustive backtracking enumerator'},
        {'name': 'scope', 'path': 'engine/scope.py', 'kind_free_text': 'small-scope exhaustive input enumerators'},
        {'name': 'xp', 'path': 'engine/xp.py', 'kind_free_text': 'stateless DFS explorer of all random-draw sequences with frame-state hashing, deviation bound and horizon'},
        {'name': 'bfs', 'path': 'engine/bfs.py', 'kind_free_text': 'explicit-state BFS over operation histories on real objects'},
        {'name': 'faults', 'path': 'engine/faults.py', 'kind_free_text': 'text fault / line-language enumeration'},
        {'name': 'cli', 'path': 'engine/cli.py', 'kind_free_text': 'in-process and subprocess drivers of the command line tools'},
    ],
    'checks': checks,
    'not_applicable': na,
    'notes': 'All checks are bounded exhaustive explorations of the real implementation (model checking family); see DESIGN.md.',
}
with open(os.path.join(HERE, 'MANIFEST.json'), 'w') as f:
    json.dump(manifest, f, indent=1)
    f.write('\n')
print('checks:', [c['property_id'] for c in checks])
print('not claimed:', [c['property_id'] for c in na])
